"""C02 -- reported line coverage equals the lines the interpreter actually executed.

Generated modules (``vf.gen.pygen``) are executed twice: uninstrumented under ``sys.monitoring`` (ground truth) and
through pynguin's real import hook with LINE instrumentation; the covered line ids of the module execution
(import trace) and of every call (fresh trace) are compared with a two-sided bracket of the truth.
See ``vf/c02c03_harness.py`` for the wiring and DESIGN.md section 3 C02 for the oracle.
"""

from __future__ import annotations

from typing import Any

from hypothesis import strategies as st

from vf.c02c03_harness import evaluate_case, run_shard
from vf.core import Outcome
from vf.gen import pygen

PROPERTY = "C02"
META = {
    "title": "Reported line coverage equals the lines the interpreter actually executed",
    "technique": "differential property-based testing: grammar-generated Python modules, ground truth from sys.monitoring "
                 "(LINE and INSTRUCTION events on the uninstrumented code) vs. pynguin's LINE instrumentation via the real import hook",
    "design_ref": "DESIGN.md §3 C02",
    "rule": "case = pygen module model (functions, generator functions, a class with methods/properties, module-level code; "
            "if/elif/while/for/break/continue/else, try/except/else/finally, raise, with, match, closures/nonlocal, lambdas, "
            "comprehensions, globals, asserts; type-directed with ~1% ill-typed expressions) + 2 argument tuples per callable "
            "(6% deliberately of another type) + a metric subset containing LINE; one evaluation = one observation window "
            "(module execution or one call); non-trivial = some window executed >= 2 distinct lines and left >= 1 registered line "
            "unexecuted; distinct by (module source, calls, metrics)",
    "assumptions": [
        "sys.monitoring LINE events are a lower bound and INSTRUCTION-event lines + first line of every entered code object an "
        "upper bound of 'executed lines' (exact except RESUME/END_FOR/generator-prologue lines, which pynguin documents to skip)",
        "a window is compared only if the instrumented run had the same outcome kind/exception type as the original run and the "
        "tracer neither raised into the subject nor was left disabled (C01/C04/C05 territory; counted as excluded)",
        "the dynamic-seeding adapter is active as in production (install_import_hook adds it); a window in which it changed "
        "the behaviour of the subject would be excluded as 'behaviour-diverged'",
        "registration completeness (every executable line is a goal) is C08's subject and is not demanded here (only: a module that "
        "executes lines has at least one line goal)",
        "metric subsets: quick {LINE}, {LINE, BRANCH}; thorough additionally {LINE, CHECKED}, {LINE, BRANCH, CHECKED} on programs "
        "without comprehensions (the CHECKED adapter crashes the interpreter on every inlined comprehension -- C01 finding, "
        "excluded by construction)",
    ],
    "level_text": "Generated programs x inputs against an independent interpreter-level oracle; exploration, not proof.",
    "level_note": "Trusted: CPython's sys.monitoring, the compile()d line tables, vf.gen.pygen's renderer.",
}
PLAN = {
    "quick": {"shards": 16, "examples": 320, "max_stmts": 14, "max_funcs": 2},
    "thorough": {"shards": 16, "examples": 8000, "timeout": 3000, "max_stmts": 25, "max_funcs": 3, "checked": True},
}
FEATURES = set(pygen.FEATURES)


def strategy(ctx) -> st.SearchStrategy:
    p = ctx.params
    base = pygen.case_strategy(FEATURES, max_funcs=p.get("max_funcs", 2), max_stmts=p.get("max_stmts", 14), per_target=2,
                               values="tame", mismatch=6)
    subsets = [["LINE"], ["BRANCH", "LINE"]]
    strat = st.tuples(base, st.sampled_from(subsets))
    if p.get("checked"):
        # Known C01 finding of the CHECKED adapter, excluded by construction: it crashes the interpreter (SIGSEGV) on every
        # inlined comprehension -- python3_12.CheckedCoverageInstrumentation.visit_local_access emits a LOAD_FAST of the still
        # unbound comprehension variable in front of LOAD_FAST_AND_CLEAR and hands the NULL to the tracer
        # (``def f(xs): return [c for c in xs]``).  The CHECKED subsets (thorough tier) therefore run on programs without
        # comprehensions; the adapter's former failures on ``with`` and on slices have been repaired in /repo meanwhile.
        plain = pygen.case_strategy(FEATURES - {"comp"}, max_funcs=p.get("max_funcs", 2), max_stmts=p.get("max_stmts", 14),
                                    per_target=2, values="tame", mismatch=6)
        checked = st.tuples(plain, st.sampled_from([["CHECKED", "LINE"], ["BRANCH", "CHECKED", "LINE"]]))
        strat = checked if p.get("checked") == "only" else st.one_of(strat, strat, checked)
    return strat.map(lambda t: {"module": t[0]["module"], "calls": t[0]["calls"], "metrics": t[1]})


def evaluate(case: dict[str, Any]) -> Outcome:
    """One case in a forked child (used by ``./check --replay`` and for the replay files of known findings)."""
    return evaluate_case(case, "line")


def shard(ctx) -> None:
    """The campaign of one shard: one supervised worker process, cases evaluated in-process (see ``run_shard``)."""
    run_shard(ctx, strategy(ctx), "line")
