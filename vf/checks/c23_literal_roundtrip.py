"""C23 — literal values round-trip through generated source (pynguin/testcase/literalgen.py).

Two case families, both drawn by Hypothesis as JSON-able models:

(a) ``{"mode": "value", "v": recipe}`` — a value built from a ``vf.gen.values`` recipe (bool, int, float incl. -0.0 /
    inf / NaN / subnormal, complex with such parts, str, bytes, nested list/tuple/set/dict) is rendered with
    ``literal_to_cst`` and turned into source with ``cst.Module(body=[]).code_for_node``.  Oracle: the source compiles,
    ``eval`` gives a value structurally identical to the original (type-exact, NaN-aware, sign of zero) and
    ``parse_literal(node, type(v))`` gives an identical value, or ``None`` where the value has no parseable literal
    form (a non-finite float anywhere; a complex nested in a collection — rendered as a ``complex(...)`` call).

(b) ``{"mode": "gen", ...}`` — ``generate_literal(raw, provider, element_pool)`` followed by a chain of
    ``mutate_literal`` calls under a drawn configuration, a constant pool holding special values and pynguin's RNG
    seeded by a drawn int.  Oracle after every step: no exception, the expression is valid Python and evaluates (with
    the element-pool names bound) to a value whose type is exactly ``raw`` (``None`` for an unsupported ``raw``).
"""

from __future__ import annotations

import builtins
import math
from typing import Any

from hypothesis import strategies as st

from vf.core import Outcome, exc_detail, exc_sig
from vf.gen import values as V

PROPERTY = "C23"
META = {
    "title": "Literal values round-trip through generated source",
    "technique": "property-based round-trip testing: render -> source -> eval / parse_literal vs. the original value "
                 "(structural, NaN- and signed-zero-aware); generate/mutate chains under drawn configurations and seeded RNG",
    "design_ref": "DESIGN.md §3 C23",
    "rule": "(a) value recipes over bool/int/float/complex/str/bytes and list/tuple/set/dict nested to depth 3, with edge pools "
            "(-0.0, inf, NaN, subnormal, 1e308, ints to 10**400, surrogates, quotes); non-trivial = contains a negative number, "
            "a non-integer/edge float, a complex, a non-ASCII/escape-needing string, or a collection; (b) raw type x configuration "
            "x constant pool x RNG seed x 0..20 mutations; non-trivial = at least one mutation or a seeded constant pool; "
            "distinct by the whole case",
    "assumptions": ["ints with more than 4000 digits are outside the domain (CPython refuses to convert them to decimal literals)",
                    "configuration values are positive (max_int, string_length, bytes_length, collection_size, max_delta >= 1)",
                    "parse_literal may answer None (not parseable) for non-finite floats and for complex values nested in collections"],
    "level_text": "Generated values and generate/mutate histories against Python's own eval; exploration, not proof.",
    "level_note": "Trusted: CPython compile/eval and ast.literal_eval semantics; structural comparison in vf/gen/values.py.",
}
PLAN = {
    "quick": {"shards": 16, "examples": 16000},
    "thorough": {"shards": 16, "examples": 1000000, "timeout": 3000},
}

RAW_TYPES = {"bool": bool, "int": int, "float": float, "complex": complex, "str": str, "bytes": bytes, "list": list,
             "set": set, "tuple": tuple, "dict": dict, "none": None, "frozenset": frozenset, "object": object}


# ------------------------------------------------------------------------------------------- generator
def _leaf() -> st.SearchStrategy:
    only_bytes = V.bytess().map(lambda r: {"k": "bytes", "hex": r["hex"]})
    return V.choice(V.ints(), V.ints(), V.floats(), V.floats(), V.floats(), V.edge_numbers_of("float"), V.bools(), V.complexes(),
                    V.edge_numbers_of("complex"), V.strs(8), V.strs(8), only_bytes)


def _hashable_leaf() -> st.SearchStrategy:
    return _leaf()  # every literal leaf type is hashable


def _value(depth: int) -> st.SearchStrategy:
    leaf = _leaf()
    if depth <= 0:
        return leaf
    inner = _value(depth - 1)
    hashable = _hashable_value(depth - 1)
    seq = st.tuples(st.sampled_from(["list", "tuple"]), st.lists(inner, max_size=4)).map(lambda t: {"k": t[0], "items": t[1]})
    sets = st.lists(hashable, max_size=4).map(lambda xs: {"k": "set", "items": xs})
    dicts = st.lists(st.tuples(hashable, inner).map(list), max_size=3).map(lambda xs: {"k": "dict", "items": xs})
    return V.choice(leaf, leaf, seq, seq, sets, dicts)


def _hashable_value(depth: int) -> st.SearchStrategy:
    leaf = _hashable_leaf()
    if depth <= 0:
        return leaf
    return V.choice(leaf, leaf, st.lists(_hashable_value(depth - 1), max_size=3).map(lambda xs: {"k": "tuple", "items": xs}))


def _gen_cases() -> st.SearchStrategy:
    cfg = st.fixed_dictionaries({
        "max_int": V.choice(st.just(2048), st.integers(1, 10), st.integers(1, 10**18)),
        "string_length": st.integers(1, 30),
        "bytes_length": st.integers(1, 30),
        "collection_size": st.integers(1, 8),
        "max_delta": V.choice(st.just(20), st.integers(1, 10**6)),
        "random_perturbation": st.sampled_from([0.0, 0.2, 0.5, 1.0]),
        "seed_prob": st.sampled_from([0.0, 0.2, 0.9, 1.0]),
        "assembly_prob": st.sampled_from([0.0, 0.2, 1.0]),
        "max_tokens": st.integers(1, 5),
        "ref_prob": st.sampled_from([0.0, 0.5, 1.0]),
    })
    only_bytes = V.bytess().map(lambda r: {"k": "bytes", "hex": r["hex"]})
    pool = st.lists(V.choice(V.ints(), V.floats(), V.edge_numbers_of("float"), V.complexes(), V.strs(8), V.strs(8), only_bytes), max_size=8)
    return st.fixed_dictionaries({
        "mode": st.just("gen"),
        "raw": st.sampled_from(["bool", "int", "float", "complex", "str", "bytes", "list", "set", "tuple", "dict", "int", "float",
                                "complex", "tuple", "set", "none", "frozenset", "object"]),
        "cfg": cfg,
        "pool": pool,
        "pool_prob": st.sampled_from([0.0, 0.5, 1.0]),
        "rng": st.integers(0, 2**32 - 1),
        "mutations": st.integers(0, 20),
        "names": st.integers(0, 3),
    })


def strategy(ctx) -> st.SearchStrategy:
    value_case = _value(3).map(lambda r: {"mode": "value", "v": r})
    return V.choice(value_case, value_case, _gen_cases())


# ------------------------------------------------------------------------------------------- oracle helpers
def _leaf_class(snap: Any) -> str:
    tag = snap[0] if isinstance(snap, list) and snap else "?"
    if tag == "float":
        x = snap[1]
        if x in ("nan", "inf", "-inf"):
            return "float." + x.lstrip("-")
        v = float.fromhex(x)
        if v == 0.0:
            return "float.-0" if math.copysign(1.0, v) < 0 else "float.0"
        return "float.neg" if v < 0 else "float"
    if tag == "int":
        return "int.neg" if snap[1].startswith("-") else "int"
    return str(tag)


def _first_diff(a: Any, b: Any) -> str:
    """Class of the first differing leaf between two snapshots (root-cause bucket, no values)."""
    if not (isinstance(a, list) and isinstance(b, list)) or not a or not b:
        return "shape"
    if a[0] != b[0]:
        return f"{_leaf_class(a)}->{b[0]}"
    if a[0] == "complex":
        for x, y in zip(a[1:], b[1:]):
            if x != y:
                return "complex(" + _leaf_class(["float", x]) + ")"
    if a[0] in ("list", "tuple", "set", "frozenset"):
        if len(a[1]) != len(b[1]):
            return f"{a[0]}.length"
        for x, y in zip(a[1], b[1]):
            if x != y:
                return _first_diff(x, y)
    if a[0] == "dict":
        if len(a[1]) != len(b[1]):
            return "dict.length"
        for (k1, v1), (k2, v2) in zip(a[1], b[1]):
            if k1 != k2:
                return _first_diff(k1, k2)
            if v1 != v2:
                return _first_diff(v1, v2)
    return _leaf_class(a)


def _has_nonfinite_float(r: dict[str, Any]) -> bool:
    if r["k"] == "float":
        return not math.isfinite(float.fromhex(r["x"]))
    if r["k"] == "complex":
        return not (math.isfinite(float.fromhex(r["re"])) and math.isfinite(float.fromhex(r["im"])))
    if r["k"] == "dict":
        return any(_has_nonfinite_float(a) or _has_nonfinite_float(b) for a, b in r["items"])
    return any(_has_nonfinite_float(x) for x in r.get("items", []))


def _has_nested_complex(r: dict[str, Any], top: bool = True) -> bool:
    if r["k"] == "complex":
        return not top
    if r["k"] == "dict":
        return any(_has_nested_complex(a, False) or _has_nested_complex(b, False) for a, b in r["items"])
    return any(_has_nested_complex(x, False) for x in r.get("items", []))


def _interesting(r: dict[str, Any]) -> bool:
    k = r["k"]
    if k == "int":
        return r["v"] < 0 or abs(r["v"]) > 2**53
    if k == "float":
        x = float.fromhex(r["x"])
        return not (math.isfinite(x) and x == int(x) and x > 0)
    if k == "str":
        return any(ord(c) > 126 or ord(c) < 32 or c in "'\"\\" for c in r["v"])
    if k == "bool":
        return False
    return True


def _source(node: Any) -> str:
    import libcst as cst

    return cst.Module(body=[]).code_for_node(node)


def _namespace(extra: dict[str, Any] | None = None) -> dict[str, Any]:
    ns: dict[str, Any] = {"__builtins__": builtins}
    if extra:
        ns.update(extra)
    return ns


# ------------------------------------------------------------------------------------------- (a) values
def _evaluate_value(case: dict[str, Any], out: Outcome) -> None:
    import libcst as cst

    from pynguin.testcase import literalgen as lg

    r = case["v"]
    value = V.materialise(r)
    cat = V.category(r)
    out.labels.append(f"value:{cat}")
    expected = V.snapshot(value)
    try:
        node = lg.literal_to_cst(value)
        code = _source(node)
    except Exception as exc:  # noqa: BLE001
        out.fail(f"value|{cat}|render-raises:{exc_sig(exc)}", f"value={value!r}\n{exc_detail(exc)}")
        return
    try:
        got = eval(compile(code, "<literal>", "eval"), _namespace())  # noqa: S307
    except (SyntaxError, ValueError) as exc:  # ValueError: NUL bytes / lone surrogates in the source
        out.fail(f"value|{cat}|invalid-syntax", f"value={value!r} code={code!r}: {exc}")
        return
    except Exception as exc:  # noqa: BLE001
        out.fail(f"value|{cat}|eval-raises:{type(exc).__name__}", f"value={value!r} code={code!r}: {exc!r}")
        return
    snap = V.snapshot(got)
    if snap != expected:
        out.fail(f"value|{_first_diff(expected, snap)}|eval-differs", f"value={value!r} code={code!r} evaluates to {got!r}")
    try:
        cst.parse_expression(code)
    except Exception as exc:  # noqa: BLE001
        out.fail(f"value|{cat}|libcst-cannot-reparse", f"value={value!r} code={code!r}: {exc!r}")
    # parse back
    try:
        parsed = lg.parse_literal(node, type(value))
    except Exception as exc:  # noqa: BLE001
        out.fail(f"value|{cat}|parse-raises:{exc_sig(exc)}", f"value={value!r} code={code!r}\n{exc_detail(exc)}")
        return
    if parsed is None:
        if _has_nonfinite_float(r) or _has_nested_complex(r):
            out.labels.append("parse:none-allowed")
        else:
            out.fail(f"value|{cat}|parse-none", f"value={value!r} code={code!r}: parse_literal returned None")
    else:
        psnap = V.snapshot(parsed)
        if psnap != expected:
            out.fail(f"value|{_first_diff(expected, psnap)}|parse-differs", f"value={value!r} code={code!r} parsed as {parsed!r}")
        else:
            out.labels.append("parse:ok")
    out.nontrivial = V.contains_kind(r, ("complex", "list", "tuple", "set", "dict", "bytes")) or _any_leaf(r, _interesting)


def _any_leaf(r: dict[str, Any], pred) -> bool:
    if r["k"] == "dict":
        return any(_any_leaf(a, pred) or _any_leaf(b, pred) for a, b in r["items"])
    if "items" in r:
        return any(_any_leaf(x, pred) for x in r["items"])
    return pred(r)


# ------------------------------------------------------------------------------------------- (b) generate / mutate
_CFG_FIELDS = [
    ("test_creation", "max_int", "max_int"), ("test_creation", "string_length", "string_length"),
    ("test_creation", "bytes_length", "bytes_length"), ("test_creation", "collection_size", "collection_size"),
    ("test_creation", "max_delta", "max_delta"), ("test_creation", "collection_reference_probability", "ref_prob"),
    ("search_algorithm", "random_perturbation", "random_perturbation"),
    ("seeding", "seeded_primitives_reuse_probability", "seed_prob"),
    ("string_statement", "token_assembly_probability", "assembly_prob"),
    ("string_statement", "max_assembled_tokens", "max_tokens"),
]


def _evaluate_gen(case: dict[str, Any], out: Outcome) -> None:
    import libcst as cst

    import pynguin.configuration as config
    from pynguin.analyses.constants import ConstantPool, DelegatingConstantProvider, EmptyConstantProvider
    from pynguin.testcase import literalgen as lg
    from pynguin.utils import randomness

    raw_name = case["raw"]
    raw = RAW_TYPES[raw_name]
    supported = raw in lg.LITERAL_TYPES
    out.labels.append(f"gen:{raw_name}")
    saved = [(sec, field, getattr(getattr(config.configuration, sec), field)) for sec, field, _ in _CFG_FIELDS]
    try:
        for sec, field, key in _CFG_FIELDS:
            setattr(getattr(config.configuration, sec), field, case["cfg"][key])
        pool = ConstantPool()
        for rec in case["pool"]:
            pool.add_constant(V.materialise(rec))
        provider = DelegatingConstantProvider(pool, EmptyConstantProvider(), case["pool_prob"]) if case["pool"] else EmptyConstantProvider()
        names = {f"var_{i}": val for i, val in zip(range(case["names"]), [7, "ref", 2.5])}
        element_pool = [cst.Name(n) for n in names]
        randomness.RNG.seed(case["rng"])
        expr = None
        for step in range(case["mutations"] + 1):
            op = "generate" if step == 0 else "mutate"
            try:
                expr = lg.generate_literal(raw, provider, element_pool) if step == 0 else lg.mutate_literal(expr, raw, provider, element_pool)
                code = _source(expr)
            except Exception as exc:  # noqa: BLE001
                out.fail(f"{op}|{raw_name}|raises:{exc_sig(exc)}", f"step {step}\n{exc_detail(exc)}")
                return
            try:
                got = eval(compile(code, "<literal>", "eval"), _namespace(names))  # noqa: S307
            except (SyntaxError, ValueError) as exc:  # ValueError: NUL bytes / lone surrogates in the source
                out.fail(f"{op}|{raw_name}|invalid-syntax", f"step {step} code={code!r}: {exc}")
                return
            except Exception as exc:  # noqa: BLE001
                out.fail(f"{op}|{raw_name}|eval-raises:{type(exc).__name__}", f"step {step} code={code!r}: {exc!r}")
                return
            want = raw if supported else type(None)
            if type(got) is not want:
                out.fail(f"{op}|{raw_name}|wrong-type:{type(got).__name__}", f"step {step} code={code!r} evaluates to {got!r}")
                return
            if supported and raw not in (list, set, tuple, dict):
                # a scalar literal must also parse back to exactly the value it evaluates to (or None for non-literal forms)
                try:
                    parsed = lg.parse_literal(expr, raw)
                except Exception as exc:  # noqa: BLE001
                    out.fail(f"{op}|{raw_name}|parse-raises:{exc_sig(exc)}", f"step {step} code={code!r}\n{exc_detail(exc)}")
                    return
                if parsed is not None and V.snapshot(parsed) != V.snapshot(got):
                    out.fail(f"{op}|{_first_diff(V.snapshot(got), V.snapshot(parsed))}|parse-differs-from-eval",
                             f"step {step} code={code!r} evaluates to {got!r} but parses as {parsed!r}")
                    return
        out.nontrivial = case["mutations"] > 0 or bool(case["pool"])
    finally:
        for sec, field, val in saved:
            setattr(getattr(config.configuration, sec), field, val)


def evaluate(case: dict[str, Any]) -> Outcome:
    out = Outcome()
    if case["mode"] == "value":
        _evaluate_value(case, out)
    else:
        _evaluate_gen(case, out)
    return out
