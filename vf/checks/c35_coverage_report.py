"""C35 — coverage reports agree with the computed coverage.

Each case: real session with ``[BRANCH, LINE]`` over a generated module (``vf.gen.pygen``: loops, try/except, match,
comprehensions, generators, closures, classes, top-level code) or a corpus module; a random suite (well-typed calls drawn
with the module + tests built by pynguin's own factory) is executed with the real executor; then
``get_coverage_report(suite, subject_properties, M)`` for M in {{BRANCH, LINE}, {BRANCH}, {LINE}} and the Cobertura
renderer.  Oracle = independent recount from the per-test execution traces and the registries of the subject properties:

* totals: ``branches``/``branchless_code_objects``/``lines`` entries equal the recount; ``branch_coverage`` and
  ``line_coverage`` equal both the entries' ratio (1.0 if nothing exists) and the recounted ratio;
* the per-line annotations sum to the totals (each of branches, branch-less code objects, lines, total);
* the annotation of line *l* shows ``lines.covered == 1`` exactly when the suite covers *l*, ``lines.existing == 1`` exactly
  when *l* is a line goal, and the branches / branch-less code objects registered on *l* with their recounted coverage;
* the Cobertura XML repeats the totals and, per line, hits / condition-coverage consistent with the recount.
"""

from __future__ import annotations

import datetime
import os
import shutil
import tempfile
import xml.etree.ElementTree as ET  # noqa: S405
from typing import Any

from hypothesis import strategies as st

from vf.core import Outcome

PROPERTY = "C35"
META = {
    "title": "Coverage reports agree with the computed coverage",
    "technique": "program generation: Hypothesis-drawn modules (pygen grammar / corpus) and suites executed in a real session; "
                 "independent recount of totals and per-line annotations from the per-test traces; Cobertura XML parsed back",
    "design_ref": "DESIGN.md §3 C35",
    "rule": "case = generated module (pygen model, <= 3 functions + classes/generators/top-level code) with drawn well-typed calls, or a "
            "corpus module, x 1..4 factory-built tests; suite executed with the real executor; reports for {BRANCH,LINE}, {BRANCH}, "
            "{LINE}. Non-trivial = module has >= 2 predicates and >= 1 branch-less code object, and the suite covers some but not all "
            "branches and some but not all lines; distinct by the whole case",
    "assumptions": ["the registries of the subject properties (existing predicates / code objects / lines) and the per-test execution traces "
                    "are the inputs of the recount (C02/C03 check them against the interpreter); merging = union of covered lines and "
                    "executed code objects, a branch is covered when some test reached distance 0.0",
                    "a module whose instrumentation fails (known C01/C03 defects) is counted as inconclusive"],
    "level_text": "Generated modules and suites; every number of the report recounted independently; XML parsed back. Exploration, not proof.",
    "level_note": "Trusted: subject-properties registries and execution traces (checked by C02/C03/C10); xml.etree.",
}
PLAN = {
    "quick": {"shards": 16, "examples": 480, "timeout": 1500},
    "thorough": {"shards": 16, "examples": 9000, "timeout": 7200},
}

CORPUS = ["vfc_numeric", "vfc_strings", "vfc_containers", "vfc_account", "vfc_queue", "vfc_enums", "vfc_floats", "vfc_raising",
          "vfc_defaults", "vfc_records"]


def strategy(ctx) -> st.SearchStrategy:
    import vf.gen.pygen as pg

    generated = pg.case_strategy(max_funcs=3, max_stmts=14, max_depth=3, per_target=2, values="tame").map(
        lambda c: {"kind": "pygen", "model": c["module"], "calls": c["calls"]})
    corpus = st.fixed_dictionaries({"kind": st.just("corpus"), "module": st.sampled_from(CORPUS)})
    return st.fixed_dictionaries({
        # one case in five uses a corpus module (one_of would favour the cheap corpus branch far more often)
        "sut": st.tuples(generated, corpus, st.integers(0, 4)).map(lambda t: t[1] if t[2] == 0 else t[0]),
        "seed": st.integers(0, 10**6),
        "tests": st.lists(st.tuples(st.integers(0, 10**6), st.integers(1, 8)).map(list), min_size=1, max_size=4),
        "drop": st.integers(0, 3),  # how many of the drawn calls are left out (partial coverage)
    })


# ------------------------------------------------------------------------------------------ drawn calls -> test statements
class _Unsupported(Exception):
    pass


def _src(recipe: dict[str, Any], alias: str) -> str:
    if "k" in recipe:
        raise _Unsupported
    t = recipe["t"]
    v = recipe.get("v")
    if t == "none":
        return "None"
    if t in ("int", "bool", "str"):
        return repr(v)
    if t == "float":
        if isinstance(v, str):
            return f"float({v!r})"
        return repr(float(v))
    if t == "bytes":
        return repr(bytes.fromhex(v))
    if t == "list":
        return "[" + ", ".join(_src(x, alias) for x in v) + "]"
    if t == "tuple":
        return "(" + ", ".join(_src(x, alias) for x in v) + ("," if len(v) == 1 else "") + ")"
    if t == "set":
        return "{" + ", ".join(_src(x, alias) for x in v) + "}" if v else "set()"
    if t == "dict":
        return "{" + ", ".join(f"{_src(k, alias)}: {_src(x, alias)}" for k, x in v) + "}"
    if t == "obj":
        return f"{alias}.{recipe['cls']}(" + ", ".join(_src(x, alias) for x in recipe.get("args", [])) + ")"
    raise _Unsupported


def call_statement(call: dict[str, Any], alias: str) -> str | None:
    """Source of one statement performing a drawn call (``{self}`` = the statement's variable)."""
    try:
        args = ", ".join(_src(a, alias) for a in call.get("args", []))
        target = call["target"]
        kind = call.get("kind", "func")
        if "." in target:
            cls, member = target.split(".", 1)
            recv = f"{alias}.{cls}(" + ", ".join(_src(a, alias) for a in call.get("init", [])) + ")"
            if kind == "prop":
                return f"{{self}} = {recv}.{member}"
            return f"{{self}} = {recv}.{member}({args})"
        if kind == "gen":  # drain at most 64 items, like pygen.invoke
            return f"{{self}} = [x for _, x in zip(range(64), {alias}.{target}({args}))]"
        return f"{{self}} = {alias}.{target}({args})"
    except _Unsupported:
        return None


# ------------------------------------------------------------------------------------------ independent recount
def recount(sp: Any, results: list[Any]) -> dict[str, Any]:
    covered_ids: set[int] = set()
    executed: set[int] = set()
    true_cov: set[int] = set()
    false_cov: set[int] = set()
    for r in results:
        t = r.execution_trace
        covered_ids |= set(t.covered_line_ids)
        executed |= set(t.executed_code_objects)
        true_cov |= {p for p, d in t.true_distances.items() if d == 0.0}
        false_cov |= {p for p, d in t.false_distances.items() if d == 0.0}
    preds = {pid: meta.line_no for pid, meta in sp.existing_predicates.items()}
    with_pred = {meta.code_object_id for meta in sp.existing_predicates.values()}
    branchless = {cid: meta.code_object.co_firstlineno for cid, meta in sp.existing_code_objects.items() if cid not in with_pred}
    line_no_of = {lid: meta.line_number for lid, meta in sp.existing_lines.items()}
    per_line: dict[Any, dict[str, int]] = {}

    def slot(line: Any) -> dict[str, int]:
        return per_line.setdefault(line, {"b_cov": 0, "b_ex": 0, "c_cov": 0, "c_ex": 0, "l_cov": 0, "l_ex": 0})

    for pid, line in preds.items():
        s = slot(line)
        s["b_ex"] += 2
        s["b_cov"] += (pid in true_cov) + (pid in false_cov)
    for cid, line in branchless.items():
        s = slot(line)
        s["c_ex"] += 1
        s["c_cov"] += cid in executed
    for line in set(line_no_of.values()):
        slot(line)["l_ex"] = 1
    for lid in covered_ids:
        if lid in line_no_of:
            slot(line_no_of[lid])["l_cov"] = 1
    tot = {k: sum(s[k] for s in per_line.values()) for k in ("b_cov", "b_ex", "c_cov", "c_ex", "l_cov", "l_ex")}
    tot["line_ids_cov"] = len(covered_ids & set(line_no_of))
    tot["line_ids_ex"] = len(line_no_of)
    return {"per_line": per_line, "tot": tot, "n_preds": len(preds), "n_branchless": len(branchless)}


def _ratio(c: int, e: int) -> float:
    return 1.0 if e == 0 else c / e


def _close(a: float | None, b: float) -> bool:
    return a is not None and abs(a - b) <= 1e-12


def check_report(rep: Any, rc: dict[str, Any], metrics: set[str], fails: list[list[str]], tag: str) -> None:
    tot, per_line = rc["tot"], rc["per_line"]
    n_src = len(rep.source)
    outside = sorted((str(k) for k in per_line if not (isinstance(k, int) and 1 <= k <= n_src)))

    def where(kind: str) -> str:
        """root cause class of a sum mismatch: goals registered on a line no annotation stands for"""
        keys = {"branches": ("b_ex",), "branchless": ("c_ex",), "lines": ("l_ex",)}[kind]
        bad = [k for k in per_line if not (isinstance(k, int) and 1 <= k <= n_src) and any(per_line[k][x] for x in keys)]
        if any(k is None for k in bad):
            return "goal-without-line-number"
        return "goal-outside-source" if bad else "other"

    ann = rep.line_annotations
    if [a.line_no for a in ann] != list(range(1, n_src + 1)):
        fails.append([f"annotations|not-one-per-source-line|{tag}", f"{[a.line_no for a in ann][:20]} for {n_src} source lines"])
        return
    if "BRANCH" in metrics:
        if (rep.branches.covered, rep.branches.existing) != (tot["b_cov"], tot["b_ex"]):
            fails.append([f"total|branches-differ-from-recount|{tag}", f"report {rep.branches} recount {tot['b_cov']}/{tot['b_ex']}"])
        if (rep.branchless_code_objects.covered, rep.branchless_code_objects.existing) != (tot["c_cov"], tot["c_ex"]):
            fails.append([f"total|branchless-code-objects-differ-from-recount|{tag}",
                          f"report {rep.branchless_code_objects} recount {tot['c_cov']}/{tot['c_ex']}"])
        want = _ratio(tot["b_cov"] + tot["c_cov"], tot["b_ex"] + tot["c_ex"])
        if not _close(rep.branch_coverage, want):
            fails.append([f"total|branch_coverage-differs-from-recount|{tag}", f"report {rep.branch_coverage!r} recount {want!r}"])
        own = _ratio(rep.branches.covered + rep.branchless_code_objects.covered,
                     rep.branches.existing + rep.branchless_code_objects.existing)
        if not _close(rep.branch_coverage, own):
            fails.append([f"total|branch_coverage-differs-from-its-entries|{tag}", f"{rep.branch_coverage!r} vs entries {own!r}"])
        for kind, attr, ck, ek in (("branches", "branches", "b_cov", "b_ex"), ("branchless", "branchless_code_objects", "c_cov", "c_ex")):
            s_cov = sum(getattr(a, attr).covered for a in ann)
            s_ex = sum(getattr(a, attr).existing for a in ann)
            total = getattr(rep, attr)
            if (s_cov, s_ex) != (total.covered, total.existing):
                fails.append([f"sum|{kind}|{where(kind)}|{tag}",
                              f"annotations sum to {s_cov}/{s_ex}, total says {total.covered}/{total.existing}; goals on lines {outside}"])
            for a in ann:
                exp = per_line.get(a.line_no, {})
                got = getattr(a, attr)
                if (got.covered, got.existing) != (exp.get(ck, 0), exp.get(ek, 0)):
                    fails.append([f"line|{kind}|{tag}", f"line {a.line_no}: annotation {got}, recount {exp.get(ck, 0)}/{exp.get(ek, 0)}"])
                    break
    else:
        if rep.branch_coverage is not None or rep.branches.existing or rep.branchless_code_objects.existing:
            fails.append([f"total|branch-data-without-branch-metric|{tag}", f"{rep.branch_coverage} {rep.branches}"])
    if "LINE" in metrics:
        if (rep.lines.covered, rep.lines.existing) != (tot["l_cov"], tot["l_ex"]):
            fails.append([f"total|lines-differ-from-recount|{tag}", f"report {rep.lines} recount {tot['l_cov']}/{tot['l_ex']}"])
        want = _ratio(tot["line_ids_cov"], tot["line_ids_ex"])
        if not _close(rep.line_coverage, want):
            fails.append([f"total|line_coverage-differs-from-recount|{tag}", f"report {rep.line_coverage!r} recount {want!r}"])
        own = _ratio(rep.lines.covered, rep.lines.existing)
        if not _close(rep.line_coverage, own):
            fails.append([f"total|line_coverage-differs-from-its-entries|{tag}", f"{rep.line_coverage!r} vs entries {own!r} ({rep.lines})"])
        s_cov = sum(a.lines.covered for a in ann)
        s_ex = sum(a.lines.existing for a in ann)
        if (s_cov, s_ex) != (rep.lines.covered, rep.lines.existing):
            fails.append([f"sum|lines|{where('lines')}|{tag}",
                          f"annotations sum to {s_cov}/{s_ex}, total says {rep.lines.covered}/{rep.lines.existing}; goals on lines {outside}"])
        for a in ann:
            exp = per_line.get(a.line_no, {})
            if a.lines.covered != exp.get("l_cov", 0):
                fails.append([f"line|covered-flag|{tag}", f"line {a.line_no}: shown covered={a.lines.covered}, suite covers it: {exp.get('l_cov', 0)}"])
                break
            if a.lines.existing != exp.get("l_ex", 0):
                fails.append([f"line|existing-flag|{tag}", f"line {a.line_no}: shown existing={a.lines.existing}, is a line goal: {exp.get('l_ex', 0)}"])
                break
    else:
        if rep.line_coverage is not None or rep.lines.existing:
            fails.append([f"total|line-data-without-line-metric|{tag}", f"{rep.line_coverage} {rep.lines}"])
    for a in ann:
        parts = (a.branches, a.branchless_code_objects, a.lines)
        if (a.total.covered, a.total.existing) != (sum(p.covered for p in parts), sum(p.existing for p in parts)):
            fails.append([f"line|total-is-not-the-sum-of-its-parts|{tag}", f"line {a.line_no}: {a}"])
            break


def check_xml(text: str, rep: Any, metrics: set[str], fails: list[list[str]], tag: str) -> None:
    try:
        root = ET.fromstring(text)  # noqa: S314
    except ET.ParseError as exc:
        fails.append([f"xml|not-well-formed|{tag}", str(exc)])
        return
    want = {
        "line-rate": f"{rep.line_coverage}", "branch-rate": f"{rep.branch_coverage}",
        "lines-covered": str(rep.lines.covered), "lines-valid": str(rep.lines.existing),
        "branches-covered": str(rep.branches.covered + rep.branchless_code_objects.covered),
        "branches-valid": str(rep.branches.existing + rep.branchless_code_objects.existing),
    }
    for k, v in want.items():
        if root.get(k) != v:
            fails.append([f"xml|{k}|{tag}", f"xml {root.get(k)!r}, report {v!r}"])
    for el in list(root.iter("package")) + list(root.iter("class")):
        for k in ("line-rate", "branch-rate"):
            if el.get(k) != want[k]:
                fails.append([f"xml|{el.tag}-{k}|{tag}", f"xml {el.get(k)!r}, report {want[k]!r}"])
    by_no = {a.line_no: a for a in rep.line_annotations}
    seen = set()
    for el in root.iter("line"):
        no = int(el.get("number"))
        seen.add(no)
        a = by_no.get(no)
        if a is None or a.total.existing == 0:
            fails.append([f"xml|line-element-for-line-without-goals|{tag}", f"line {no}"])
            continue
        cov = a.branches.covered + a.branchless_code_objects.covered
        ex = a.branches.existing + a.branchless_code_objects.existing
        any_cov = (a.lines.covered > 0) or cov > 0
        if el.get("hits") != ("1" if any_cov else "0"):
            fails.append([f"xml|line-hits|{tag}", f"line {no}: hits={el.get('hits')} but annotation {a}"])
        if ex:
            exp = f"{cov / ex:.0%} ({cov}/{ex})"
            if el.get("branch") != "true" or el.get("condition-coverage") != exp:
                fails.append([f"xml|condition-coverage|{tag}", f"line {no}: {el.attrib} expected {exp}"])
        elif el.get("branch") != "false" or el.get("condition-coverage") is not None:
            fails.append([f"xml|branch-flag-on-line-without-branches|{tag}", f"line {no}: {el.attrib}"])
    missing = sorted(no for no, a in by_no.items() if a.total.existing > 0 and no not in seen)
    if missing:
        fails.append([f"xml|line-with-goals-missing|{tag}", f"lines {missing[:10]}"])


# ------------------------------------------------------------------------------------------ the case
class _CaseTimeout(BaseException):
    pass


def _alarm(_signo, _frame):
    raise _CaseTimeout


def _run(case: dict[str, Any], module_dir: str, module_name: str) -> dict[str, Any]:
    import pynguin.configuration as config
    import pynguin.utils.report as report

    from vf.session import Session

    overrides = {
        # generated / corpus code terminates quickly by construction: a timeout could only come from machine load
        "stopping.maximum_test_execution_timeout": 120,
        "stopping.test_execution_time_per_statement": 30,
    }
    fails: list[list[str]] = []
    info: dict[str, Any] = {"timeouts": 0}
    with Session(module_dir, module_name, seed=case["seed"], algorithm="MOSA", coverage_metrics=("BRANCH", "LINE"),
                 instantiate=False, overrides=overrides) as s:
        tests = []
        sut = case["sut"]
        if sut["kind"] == "pygen":
            calls = list(sut["calls"])
            calls = calls[:max(1, len(calls) - case["drop"])]
            stmts = [c for c in (call_statement(call, s.alias) for call in calls) if c is not None]
            for k in range(0, len(stmts), 2):  # two calls per test; a raising call ends its test
                tests.append(s.build_test_case_from_calls([{"stmt": src, "binds": True} for src in stmts[k:k + 2]]))
        for seed, size in case["tests"]:
            t = s.random_test_case(seed, size)
            if t.size():
                tests.append(t)
        chroms = [s.chromosome(t) for t in tests]
        results = []
        for ch in chroms:
            r = s.executor.execute(ch.test_case)
            info["timeouts"] += bool(r.timeout)
            ch.set_last_execution_result(r)
            results.append(r)
        suite = s.suite(chroms)
        sp = s.subject_properties
        rc = recount(sp, results)
        info.update(n_tests=len(chroms), n_preds=rc["n_preds"], n_branchless=rc["n_branchless"], tot=rc["tot"],
                    location_less=sorted(str(k) for k in rc["per_line"] if not isinstance(k, int)))
        metric = config.CoverageMetric
        out_dir = s.output_path
        for names in (("BRANCH", "LINE"), ("BRANCH",), ("LINE",)):
            tag = "+".join(names)
            rep = report.get_coverage_report(suite, sp, {metric[n] for n in names})
            check_report(rep, rc, set(names), fails, tag)
            path = os.path.join(out_dir, f"cov_{tag}.xml")
            from pathlib import Path

            report.render_xml_coverage_report(rep, Path(path), datetime.datetime(2020, 1, 2, 3, 4, 5))  # noqa: DTZ001
            with open(path, encoding="utf-8") as fh:
                check_xml(fh.read(), rep, set(names), fails, tag)
    info["failures"] = fails
    return info


def evaluate_in_process(case: dict[str, Any]) -> Outcome:
    """Runs inside the worker process, several cases one after the other (``Session.close`` undoes global effects); SIGALRM is
    the inner watchdog against hangs."""
    import signal
    import sys

    import vf.gen.pygen as pg
    from vf.core import exc_detail, exc_sig, h12, has_pynguin_frame
    from vf.corpus import CORPUS_DIR
    from vf.session import SessionSetupError

    out = Outcome()
    sut = case["sut"]
    tmp = tempfile.mkdtemp(prefix="vf_c35_", dir=os.environ.get("VF_SCRATCH_DIR") or os.environ.get("VERIF_SCRATCH"))
    old_handler = signal.signal(signal.SIGALRM, _alarm)
    info = None
    module_name = ""
    try:
        if sut["kind"] == "pygen":
            module_name = "vfsut35_" + h12(sut["model"])
            module_dir = tmp
            with open(os.path.join(tmp, module_name + ".py"), "w", encoding="utf-8") as fh:
                fh.write(pg.render(sut["model"]))
            out.labels.append("sut:pygen")
            out.labels += ["feature:" + f for f in pg.features_of(sut["model"])]
        else:
            module_name, module_dir = sut["module"], CORPUS_DIR
            out.labels.append("sut:corpus")
        signal.alarm(600)
        try:
            info = _run(case, module_dir, module_name)
        except _CaseTimeout:
            out.inconclusive = "case exceeded 600 s"
        except SessionSetupError:
            out.inconclusive = "session-setup-failed (module not importable under instrumentation)"
        except Exception as exc:  # noqa: BLE001
            if not has_pynguin_frame(exc):
                raise
            sig = exc_sig(exc)
            if "report.py" in sig:
                out.fail(f"report-raised|{sig}", exc_detail(exc))
            else:  # instrumentation / execution problems belong to C01-C03, C30
                out.inconclusive = f"pynguin raised outside the report: {sig}"
        finally:
            signal.alarm(0)
    finally:
        signal.signal(signal.SIGALRM, old_handler)
        sys.modules.pop(module_name, None)
        shutil.rmtree(tmp, ignore_errors=True)
    if info is None:
        return out
    if info["timeouts"]:
        out.inconclusive = "test-execution timeout (time-dependent)"
        return out
    for sig, detail in info["failures"]:
        out.fail(sig, f"{detail}\nsut={sut if sut['kind'] == 'corpus' else module_name}")
    tot = info["tot"]
    out.evaluations = 3
    if info["location_less"]:
        out.labels.append("class:goal-without-line-number")
    partial_b = 0 < tot["b_cov"] + tot["c_cov"] < tot["b_ex"] + tot["c_ex"]
    partial_l = 0 < tot["l_cov"] < tot["l_ex"]
    out.labels.append("coverage:partial" if partial_b and partial_l else "coverage:full-or-none")
    out.nontrivial = info["n_preds"] >= 2 and info["n_branchless"] >= 1 and partial_b and partial_l
    out.sample = {"sut": sut if sut["kind"] == "corpus" else {"kind": "pygen", "module": module_name, "features": pg.features_of(sut["model"])},
                  "tests": info["n_tests"], "predicates": info["n_preds"], "branchless_code_objects": info["n_branchless"], "recount": tot}
    return out


def evaluate(case: dict[str, Any]) -> Outcome:
    """Evaluates the case in the shard's persistent forked worker (vf/c15c24c35_worker.py): a crash of the interpreter while
    instrumented code runs, or a hang, ends the worker, not the shard, and is reported as inconclusive (not this property)."""
    from vf.c15c24c35_worker import run_in_worker

    kind, value = run_in_worker(__name__, "evaluate_in_process", case, timeout=700)
    if kind == "ok":
        return value
    out = Outcome()
    if kind == "exc":
        out.fail(f"unexpected-exception|{value['sig']}", value["detail"])
    elif kind == "signal":
        out.labels.append("class:interpreter-crash")
        out.inconclusive = f"interpreter died with signal {value} while the case ran (instrumented code; C01-C03, not this property)"
    elif kind == "timeout":
        out.inconclusive = "case exceeded 700 s in the worker"
    else:
        out.inconclusive = f"worker exited with code {value}"
    return out
