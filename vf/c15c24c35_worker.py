"""Persistent forked worker for the session-based checks C15, C24 and C35.

Why not ``vf.iso.forked`` per case: on the build machine a fork of a process that has pynguin loaded costs 3-12 CPU seconds per
case (copy-on-write faults), against 0.3-1.5 s for the case itself.  Why not plain in-process evaluation: a case executes
*instrumented generated code*; a wrongly instrumented code object can crash CPython (seen: SIGSEGV in a C35 shard), and that
must neither kill the shard nor be mistaken for a violation of these properties.

So each shard process forks ONE worker before pynguin is imported anywhere; the worker imports the check module, evaluates the
cases it is sent (JSON over pipes, one at a time) and sends the ``Outcome`` back.  If the worker dies (signal / exit) or exceeds
the per-case time limit it is reaped, the case is reported as such to the caller, and the next case gets a fresh worker.  A
worker is also recycled after ``RECYCLE`` cases (DESIGN §2.5: a shard recycles after 50 sessions).

    from vf.c15c24c35_worker import run_in_worker
    kind, value = run_in_worker("vf.checks.c35_coverage_report", "evaluate_in_process", case, timeout=600)
    # ("ok", Outcome) | ("signal", signo) | ("exit", code) | ("timeout", None)
    # an exception escaping the function: re-raised here as WorkerError (no pynguin frame: harness bug) or returned as
    # ("exc", {"sig", "detail"}) when a pynguin frame is on the traceback
"""

from __future__ import annotations

import importlib
import json
import os
import select
import signal
import struct
import time
from typing import Any

from vf.core import Outcome, exc_detail, exc_sig, has_pynguin_frame

RECYCLE = 50

_FIELDS = ("failures", "nontrivial", "key", "labels", "sample", "inconclusive", "excluded", "evaluations", "extra_keys")


class WorkerError(RuntimeError):
    """The function raised an exception without any pynguin frame: a harness bug (exit 2)."""


class _Worker:
    def __init__(self) -> None:
        self.pid = 0
        self.rfd = -1
        self.wfd = -1
        self.served = 0

    # ------------------------------------------------------------------ parent side
    def start(self) -> None:
        c2p_r, c2p_w = os.pipe()
        p2c_r, p2c_w = os.pipe()
        pid = os.fork()
        if pid == 0:
            code = 0
            try:
                os.close(c2p_r)
                os.close(p2c_w)
                _serve(p2c_r, c2p_w)
            except BaseException:  # noqa: BLE001
                code = 3
            finally:
                os._exit(code)
        os.close(c2p_w)
        os.close(p2c_r)
        self.pid, self.rfd, self.wfd, self.served = pid, c2p_r, p2c_w, 0

    def alive(self) -> bool:
        return self.pid != 0

    def stop(self, kill: bool = False) -> int | None:
        """Reap the worker; returns the wait status (None if there was no worker)."""
        if not self.pid:
            return None
        for fd in (self.wfd, self.rfd):
            try:
                os.close(fd)
            except OSError:
                pass
        if kill:
            try:
                os.kill(self.pid, signal.SIGKILL)
            except ProcessLookupError:
                pass
        _, status = os.waitpid(self.pid, 0)
        self.pid, self.rfd, self.wfd = 0, -1, -1
        return status

    def call(self, module: str, function: str, case: Any, timeout: float) -> tuple[str, Any]:
        if not self.alive() or self.served >= RECYCLE:
            self.stop()
            self.start()
        self.served += 1
        payload = json.dumps([module, function, case]).encode()
        try:
            _write_all(self.wfd, struct.pack("!I", len(payload)) + payload)
        except OSError:
            return self._dead(self.stop())
        data = _read_msg(self.rfd, time.time() + timeout)
        if data is None:  # timeout
            self.stop(kill=True)
            return ("timeout", None)
        if data == b"":  # EOF: the worker died
            return self._dead(self.stop())
        kind, value = json.loads(data)
        return (kind, value)

    @staticmethod
    def _dead(status: int | None) -> tuple[str, Any]:
        if status is not None and os.WIFSIGNALED(status):
            return ("signal", os.WTERMSIG(status))
        return ("exit", os.WEXITSTATUS(status) if status is not None else -1)


def _write_all(fd: int, data: bytes) -> None:
    view = memoryview(data)
    while view:
        n = os.write(fd, view)
        view = view[n:]


def _read_exact(fd: int, n: int, deadline: float | None) -> bytes | None:
    """n bytes; b"" on EOF before the first byte / in the middle; None on timeout."""
    chunks: list[bytes] = []
    got = 0
    while got < n:
        if deadline is not None:
            left = deadline - time.time()
            if left <= 0:
                return None
            ready, _, _ = select.select([fd], [], [], min(left, 1.0))
            if not ready:
                continue
        b = os.read(fd, min(1 << 16, n - got))
        if not b:
            return b""
        chunks.append(b)
        got += len(b)
    return b"".join(chunks)


def _read_msg(fd: int, deadline: float | None) -> bytes | None:
    head = _read_exact(fd, 4, deadline)
    if not head:
        return head
    (size,) = struct.unpack("!I", head)
    return _read_exact(fd, size, deadline)


# ---------------------------------------------------------------------- child side
def _serve(rfd: int, wfd: int) -> None:
    while True:
        data = _read_msg(rfd, None)
        if not data:
            return
        module, function, case = json.loads(data)
        try:
            out = getattr(importlib.import_module(module), function)(case)
            reply = ["ok", {f: getattr(out, f) for f in _FIELDS}]
        except Exception as exc:  # noqa: BLE001
            reply = ["exc", {"type": type(exc).__name__, "sig": exc_sig(exc), "detail": exc_detail(exc),
                             "pynguin_frame": has_pynguin_frame(exc)}]
        payload = json.dumps(reply, default=repr).encode()
        _write_all(wfd, struct.pack("!I", len(payload)) + payload)


# ---------------------------------------------------------------------- public
_WORKER = _Worker()


def run_in_worker(module: str, function: str, case: Any, timeout: float = 600.0) -> tuple[str, Any]:
    kind, value = _WORKER.call(module, function, case, timeout)
    if kind == "ok":
        out = Outcome()
        for f in _FIELDS:
            setattr(out, f, value[f])
        out.failures = [tuple(x) for x in out.failures]
        return ("ok", out)
    if kind == "exc":
        if not value.get("pynguin_frame"):
            raise WorkerError("harness error in worker: " + value["detail"])
        return ("exc", value)
    return (kind, value)
