"""Deterministic module under test for C20 (assertion rendering): enums of every flavour, nested/private/local classes.

It plays the role of ``configuration.module_name``: the exported test file imports it under the alias ``c20_sut_`` and
additionally does ``from vf.corpus.c20_sut import <public names>``.
"""
import enum
import re  # noqa: F401  (a module the SUT merely imports: its enums are *not* public names of this module)
from http import HTTPStatus  # noqa: F401  (a foreign enum that *is* a public name of this module)


class Color(enum.Enum):
    RED = 1
    GREEN = "g"
    BLUE = (1, 2)
    CRIMSON = 1  # alias of RED


class Level(enum.IntEnum):
    LOW = 0
    HIGH = 10


class Perm(enum.Flag):
    R = 1
    W = 2
    X = 4


class Mode(enum.StrEnum):
    A = "a"
    B = "b b"


class Outer:
    class Inner(enum.Enum):
        ON = 1
        OFF = 0

    class Nested:
        def __init__(self):
            self.level = 3


class _Hidden(enum.Enum):
    SECRET = 1


class Holder:
    """A SUT object whose public field carries the generated value (assertions on ``var_0.payload``)."""

    def __init__(self, payload):
        self.payload = payload


class Pair:
    def __init__(self, first, second):
        self.first = first
        self.second = second
        self._private = 1


class Box:
    """Sized, but not a builtin collection."""

    def __init__(self, n):
        self._n = n

    def __len__(self):
        return self._n


def make_local():
    class Local:
        def __init__(self):
            self.x = 1

    return Local()


_ENUM_CLASSES = {"Color": Color, "Level": Level, "Perm": Perm, "Mode": Mode, "Outer.Inner": Outer.Inner, "_Hidden": _Hidden,
                "HTTPStatus": HTTPStatus, "re.RegexFlag": re.RegexFlag}
