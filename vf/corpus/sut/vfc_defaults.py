"""Corpus SUT: default, keyword-only and optional parameters."""


def greet(name: str, greeting: str = "Hello", punctuation: str = "!") -> str:
    if not name:
        name = "world"
    return greeting + ", " + name + punctuation


def scale(x: int, factor: int = 2, *, offset: int = 0) -> int:
    if factor == 0:
        return offset
    if factor < 0:
        return offset - x - x
    return x + x + offset


def choose(flag: bool = False, when_true: str = "on", when_false: str = "off") -> str:
    if flag:
        return when_true
    return when_false


def limit(x: int, maximum: int | None = None) -> int:
    if maximum is None:
        return x
    if x > maximum:
        return maximum
    return x


def label(value: int, prefix: str = "#", width: int = 0) -> str:
    text = prefix + str(value % 1000)
    if width > 6:
        width = 6
    if width > len(text):
        return text.ljust(width, "_")
    return text
