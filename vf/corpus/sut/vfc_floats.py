"""Corpus SUT: functions returning floats."""

from math import sqrt


def midpoint(a: float, b: float) -> float:
    return (a + b) / 2.0


def ratio(a: float, b: float) -> float:
    if b == 0.0:
        return 0.0
    return a / b


def to_celsius(fahrenheit: float) -> float:
    return (fahrenheit - 32.0) * 5.0 / 9.0


def root(x: float) -> float:
    if x < 0.0:
        raise ValueError("negative input")
    return sqrt(x)


def tax(amount: float, rate: float = 0.25) -> float:
    if amount <= 0.0:
        return 0.0
    if rate < 0.0 or rate > 1.0:
        rate = 0.25
    return amount * rate


def closer_to_zero(a: float, b: float) -> float:
    if abs(a) < abs(b):
        return a
    if abs(b) < abs(a):
        return b
    return 0.5 * (a + b)


def is_fraction(x: float) -> bool:
    if x != x:
        return False
    return 0.0 < x < 1.0
