"""Corpus SUT: a bounded stack and a two-slot queue; branches depend on the fill level."""


class BoundedStack:
    def __init__(self, capacity: int = 3) -> None:
        if capacity < 1:
            capacity = 1
        if capacity > 4:
            capacity = 4
        self.capacity = capacity
        self.items: list[int] = []

    def push(self, item: int) -> bool:
        if len(self.items) >= self.capacity:
            return False
        self.items.append(item)
        return True

    def pop(self) -> int:
        if not self.items:
            raise IndexError("pop from empty stack")
        return self.items.pop()

    def peek(self) -> int | None:
        if self.items:
            return self.items[-1]
        return None

    def is_full(self) -> bool:
        return len(self.items) == self.capacity

    def size(self) -> int:
        return len(self.items)

    def __repr__(self) -> str:
        return f"BoundedStack({self.capacity}, {self.items!r})"


class TwoSlotQueue:
    def __init__(self) -> None:
        self.first: str | None = None
        self.second: str | None = None

    def put(self, value: str) -> str:
        if self.first is None:
            self.first = value
            return "first"
        if self.second is None:
            self.second = value
            return "second"
        raise OverflowError("queue full")

    def get(self) -> str:
        if self.first is None:
            raise LookupError("queue empty")
        value = self.first
        self.first = self.second
        self.second = None
        return value

    def state(self) -> str:
        if self.first is None:
            return "empty"
        if self.second is None:
            return "half"
        return "full"

    def __repr__(self) -> str:
        return f"TwoSlotQueue({self.first!r}, {self.second!r})"
