"""Extra corpus SUT: functions that return sets and frozensets of strings (rendering order of set literals)."""


def vowels(text: str) -> set[str]:
    return {c for c in text[:12] if c in "aeiou"}


def default_tags(strict: bool) -> set[str]:
    if strict:
        return {"alpha", "beta", "gamma", "delta", "epsilon"}
    return {"alpha", "omega"}


def merge_tags(extra: str, strict: bool) -> frozenset[str]:
    tags = default_tags(strict)
    if extra:
        tags.add(extra[:8])
    return frozenset(tags)


def tag_lengths(strict: bool) -> dict[str, int]:
    return {t: len(t) for t in sorted(default_tags(strict))}


def has_tag(tag: str, strict: bool) -> bool:
    return tag in default_tags(strict)
