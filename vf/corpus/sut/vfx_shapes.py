"""Extra corpus SUT: a class hierarchy whose base class is a parameter type (subclass selection order)."""


class Shape:
    def __init__(self, name: str) -> None:
        self.name = name

    def area(self) -> int:
        return 0

    def describe(self) -> str:
        return f"{self.name}:{self.area()}"


class Square(Shape):
    def __init__(self, side: int) -> None:
        super().__init__("square")
        self.side = side

    def area(self) -> int:
        return self.side * self.side if -1000 < self.side < 1000 else 0


class Rect(Shape):
    def __init__(self, width: int, height: int) -> None:
        super().__init__("rect")
        self.width = width
        self.height = height

    def area(self) -> int:
        if self.width <= 0 or self.height <= 0:
            return 0
        return 1 if self.width == self.height else 2


class Dot(Shape):
    def __init__(self) -> None:
        super().__init__("dot")


class Cube(Square):
    def area(self) -> int:
        return 6 if self.side > 0 else 0


def bigger(a: Shape, b: Shape) -> Shape:
    if a.area() >= b.area():
        return a
    return b


def classify(shape: Shape) -> str:
    if isinstance(shape, Cube):
        return "cube"
    if isinstance(shape, Square):
        return "square"
    if shape.area() == 0:
        return "flat"
    return "other"


def total_area(first: Shape, second: Shape, third: Shape) -> int:
    return first.area() + second.area() + third.area()
