"""Corpus SUT: dataclasses with methods and a function consuming them."""

from dataclasses import dataclass  # not "import dataclasses": module-valued globals are analysed transitively (14 s)


@dataclass
class Point:
    x: int = 0
    y: int = 0

    def quadrant(self) -> int:
        if self.x == 0 or self.y == 0:
            return 0
        if self.x > 0:
            if self.y > 0:
                return 1
            return 4
        if self.y > 0:
            return 2
        return 3

    def shifted(self, dx: int, dy: int = 0) -> "Point":
        return Point(self.x + dx, self.y + dy)

    def manhattan(self) -> int:
        return abs(self.x) + abs(self.y)


@dataclass(frozen=True)
class Item:
    name: str
    price: int
    quantity: int = 1

    def is_free(self) -> bool:
        return self.price <= 0

    def cost(self) -> int:
        if self.quantity <= 0:
            return 0
        if self.quantity == 1:
            return self.price
        if self.quantity == 2:
            return self.price + self.price
        # larger quantities get a flat bulk price
        return self.price + self.price + self.price


def same_column(a: Point, b: Point) -> bool:
    if a.x == b.x:
        return True
    return False


def cheaper(a: Item, b: Item) -> Item:
    if a.cost() <= b.cost():
        return a
    return b
