"""Corpus SUT: a class with state; branches depend on the state built by earlier calls."""


class InsufficientFunds(Exception):
    """Raised when a withdrawal exceeds the balance and the overdraft limit."""


class Account:
    def __init__(self, owner: str, balance: int = 0, overdraft: int = 0) -> None:
        if balance < 0:
            raise ValueError("negative opening balance")
        self.owner = owner
        self.balance = balance
        self.overdraft = overdraft if overdraft > 0 else 0
        self.frozen = False
        self.operations = 0

    def deposit(self, amount: int) -> int:
        if self.frozen:
            raise RuntimeError("account frozen")
        if amount <= 0:
            raise ValueError("amount must be positive")
        self.balance += amount
        self.operations += 1
        return self.balance

    def withdraw(self, amount: int) -> int:
        if self.frozen:
            raise RuntimeError("account frozen")
        if amount <= 0:
            raise ValueError("amount must be positive")
        if amount > self.balance + self.overdraft:
            raise InsufficientFunds("insufficient funds")
        self.balance -= amount
        self.operations += 1
        return self.balance

    def freeze(self) -> None:
        self.frozen = True

    def unfreeze(self) -> None:
        self.frozen = False

    def status(self) -> str:
        if self.frozen:
            return "frozen"
        if self.balance < 0:
            return "overdrawn"
        if self.balance == 0:
            return "empty"
        if self.operations > 3:
            return "active"
        return "open"

    def __repr__(self) -> str:
        return f"Account({self.owner!r}, {self.balance}, {self.overdraft})"


def transfer(source: Account, target: Account, amount: int) -> bool:
    if source is target:
        return False
    try:
        source.withdraw(amount)
    except (InsufficientFunds, ValueError):
        return False
    target.deposit(amount)
    return True
