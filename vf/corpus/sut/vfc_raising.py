"""Corpus SUT: functions that raise built-in and user-defined exceptions."""


class ValidationError(Exception):
    def __init__(self, field: str) -> None:
        super().__init__(f"invalid {field}")
        self.field = field


def checked_div(a: int, b: int) -> int:
    if b == 0:
        raise ZeroDivisionError("division by zero")
    return a // b


def parse_flag(text: str) -> bool:
    if text == "yes":
        return True
    if text == "no":
        return False
    raise ValueError("expected yes or no")


def require_key(table: dict[str, int], key: str) -> int:
    if key not in table:
        raise KeyError(key)
    return table[key]


def validate_age(age: int) -> int:
    if age < 0:
        raise ValidationError("age")
    if age > 150:
        raise ValidationError("age-range")
    return age


def never_negative(x: int) -> int:
    assert x >= 0, "negative"
    return x


def unwrap(value: int | None) -> int:
    if value is None:
        raise TypeError("value is None")
    return value


def guarded(a: int, b: int) -> str:
    # NOTE: "except ...: return" followed by an "if" makes BRANCH instrumentation fail on the unchanged tree
    # ("Failed to compute stacksize", a C01/C03 finding) - the handler therefore assigns instead of returning.
    try:
        result = checked_div(a, b)
    except ZeroDivisionError:
        result = -1
    if b == 0:
        return "undefined"
    if result == 0:
        return "zero"
    return "defined"
