"""Extra corpus SUT: several user-defined exceptions, documented in ``Raises:`` sections."""


class LedgerError(Exception):
    """Base class of the ledger errors."""


class UnknownAccount(LedgerError):
    """The account does not exist."""


class InsufficientFunds(LedgerError):
    """The balance is too small."""


class FrozenAccount(LedgerError):
    """The account is frozen."""


class InvalidAmount(LedgerError):
    """The amount is not positive."""


def check_amount(amount: int) -> int:
    """Validates an amount.

    Args:
        amount: the amount

    Returns:
        The amount

    Raises:
        InvalidAmount: if the amount is not positive
    """
    if amount <= 0:
        raise InvalidAmount("amount")
    return amount


def withdraw(balance: int, amount: int, frozen: bool) -> int:
    """Withdraws money.

    Args:
        balance: current balance
        amount: amount to withdraw
        frozen: whether the account is frozen

    Returns:
        The new balance

    Raises:
        FrozenAccount: if the account is frozen
        InsufficientFunds: if the balance is too small
        InvalidAmount: if the amount is not positive
    """
    if frozen:
        raise FrozenAccount("frozen")
    if amount <= 0:
        raise InvalidAmount("amount")
    if amount > balance:
        raise InsufficientFunds("funds")
    return balance - amount


def lookup(name: str) -> int:
    """Looks an account up.

    Args:
        name: the account name

    Returns:
        The account number

    Raises:
        UnknownAccount: if there is no such account
    """
    if name == "alice":
        return 1
    if name == "bob":
        return 2
    raise UnknownAccount(name)


class _LimitError(LedgerError):
    """Internal: a transfer limit was exceeded (private name, not exported by ``from module import ...``)."""


def transfer_limit(amount: int) -> int:
    if amount > 1000:
        raise _LimitError("limit")
    if amount < 0:
        raise _LimitError("negative")
    return 1000 - amount
