"""Extra corpus SUT (C19 only): module-level state that is consumed by calls, so a statement can behave differently when the
exporter re-executes a test case than when the value was observed (it then raises an undeclared exception)."""

_TOKENS = [5, 4, 3, 2, 1]


def take() -> int:
    return _TOKENS.pop()


def remaining() -> int:
    return len(_TOKENS)


def take_twice() -> int:
    first = _TOKENS.pop()
    second = _TOKENS.pop()
    return first + second


def label(n: int) -> str:
    if n > 3:
        return "high"
    if n > 1:
        return "mid"
    return "low"
