"""Extra corpus SUT (C22): bare exception handlers and straight-line tails - lines that only one kind of call reaches while the
set of covered branches stays the same (line and branch coverage can change independently)."""


def safe_div(a: int, b: int) -> int:
    try:
        return a // b
    except:  # noqa: E722
        fallback = 0
        return fallback


def first_or_default(items: list[int]) -> int:
    try:
        value = items[0]
    except:  # noqa: E722
        value = -1
        marker = "empty"
        return len(marker)
    return value


def parse_or_zero(text: str) -> int:
    try:
        number = int(text)
    except:  # noqa: E722
        number = 0
    finally:
        done = True
    return number if done else -1


def ratio(a: int, b: int) -> int:
    total = safe_div(a, b)
    extra = safe_div(b, a if a else 1)
    return total + extra
