"""Corpus SUT: integer functions with nested numeric branches (no loops, no magnitude-dependent work)."""


def classify(x: int) -> str:
    if x < 0:
        if x < -1000:
            return "very-negative"
        return "negative"
    if x == 0:
        return "zero"
    if x > 1000:
        return "large"
    if x % 2 == 0:
        return "even"
    return "odd"


def clamp(x: int, lo: int, hi: int) -> int:
    if lo > hi:
        lo, hi = hi, lo
    if x < lo:
        return lo
    if x > hi:
        return hi
    return x


def triangle(a: int, b: int, c: int) -> str:
    if a <= 0 or b <= 0 or c <= 0:
        return "invalid"
    if a + b <= c or a + c <= b or b + c <= a:
        return "not-a-triangle"
    if a == b and b == c:
        return "equilateral"
    if a == b or b == c or a == c:
        return "isosceles"
    return "scalene"


def compare(a: int, b: int) -> int:
    if a < b:
        return -1
    if a > b:
        return 1
    return 0


def in_window(x: int, centre: int = 0, radius: int = 10) -> bool:
    if radius < 0:
        return False
    return centre - radius <= x <= centre + radius


def bucket(x: int) -> int:
    if x >= 100:
        return 3
    elif x >= 10:
        return 2
    elif x >= 1:
        return 1
    return 0
