"""Corpus SUT: functions over enums."""

from enum import Enum, IntEnum  # not "import enum": module-valued globals are analysed transitively


class Color(Enum):
    RED = 1
    GREEN = 2
    BLUE = 3


class Level(IntEnum):
    LOW = 10
    MID = 20
    HIGH = 30


def is_warm(color: Color) -> bool:
    if color is Color.RED:
        return True
    return False


def mix(a: Color, b: Color) -> str:
    if a == b:
        return a.name.lower()
    pair = {a, b}
    if pair == {Color.RED, Color.GREEN}:
        return "yellow"
    if pair == {Color.RED, Color.BLUE}:
        return "magenta"
    return "cyan"


def escalate(level: Level) -> Level:
    if level == Level.LOW:
        return Level.MID
    if level == Level.MID:
        return Level.HIGH
    return Level.HIGH


def level_for(score: int) -> Level:
    if score >= Level.HIGH:
        return Level.HIGH
    if score >= Level.MID:
        return Level.MID
    return Level.LOW


def color_from_code(code: int) -> Color:
    if code not in (1, 2, 3):
        raise ValueError("unknown colour code")
    return Color(code)
