"""Extra corpus SUT: command-line style functions that terminate the interpreter (SystemExit) for some inputs."""

import sys

KNOWN = ("build", "test", "clean")


def dispatch(command: str) -> int:
    if command not in KNOWN:
        sys.exit(2)
    if command == "build":
        return 0
    if command == "test":
        return 1
    return 3


def parse_level(text: str) -> int:
    if text == "quiet":
        return 0
    if text == "verbose":
        return 2
    if text == "":
        raise SystemExit("missing level")
    return 1


def guarded_dispatch(command: str, strict: bool) -> str:
    if strict and command == "":
        sys.exit("empty command")
    return command.strip() or "noop"
