"""Corpus SUT: functions over lists, dicts, sets and tuples (work is linear in the container size only)."""


def head(xs: list[int]) -> int:
    if not xs:
        raise IndexError("empty list")
    return xs[0]


def total(xs: list[int]) -> int:
    result = 0
    for x in xs:
        if x < 0:
            continue
        result += x
    return result


def count_matching(xs: list[int], wanted: int) -> int:
    n = 0
    for x in xs:
        if x == wanted:
            n += 1
    return n


def lookup(table: dict[str, int], key: str, default: int = -1) -> int:
    if key in table:
        return table[key]
    return default


def merge_counts(a: dict[str, int], b: dict[str, int]) -> dict[str, int]:
    result = dict(a)
    for key, value in b.items():
        if key in result:
            result[key] = result[key] + value
        else:
            result[key] = value
    return result


def common(a: set[int], b: set[int]) -> list[int]:
    both = a & b
    if not both:
        return []
    return sorted(both)


def swap(pair: tuple[int, str]) -> tuple[str, int]:
    number, text = pair
    return text, number


def describe(xs: list[int]) -> str:
    size = len(xs)
    if size == 0:
        return "empty"
    if size == 1:
        return "singleton"
    if xs[0] == xs[-1]:
        return "bracketed"
    return "plain"
