"""Corpus SUT: string predicates and small string transformations."""


def kind(s: str) -> str:
    if not s:
        return "empty"
    if s.isdigit():
        return "digits"
    if s.isalpha():
        if s.isupper():
            return "upper"
        if s.islower():
            return "lower"
        return "alpha"
    if s.isspace():
        return "space"
    return "mixed"


def has_prefix(s: str, prefix: str = "ab") -> bool:
    if s.startswith(prefix):
        return True
    return False


def scheme(url: str) -> str:
    if url.startswith("https://"):
        return "https"
    if url.startswith("http://"):
        return "http"
    if url.endswith(".local"):
        return "local"
    if "://" in url:
        return "other"
    return "none"


def first_char(s: str) -> str:
    if len(s) == 0:
        raise ValueError("empty string")
    return s[0]


def same_ignoring_case(a: str, b: str) -> bool:
    if a == b:
        return True
    return a.lower() == b.lower()


def initials(first: str, last: str) -> str:
    result = ""
    if first:
        result += first[0].upper()
    if last:
        result += last[0].upper()
    if not result:
        return "?"
    return result


def pad(s: str, width: int = 5) -> str:
    # width is capped so the running time does not depend on the argument's magnitude
    if width > 8:
        width = 8
    if len(s) >= width:
        return s
    return s.rjust(width, ".")
