"""Small hand-written deterministic SUT modules shared by the session / whole-tool checks.

Corpus rule (DESIGN.md §2.7): running time independent of argument *magnitude* (no ``range(n)``,
``s * n``, ``int * int`` chains, recursion on an argument), no addresses, no time, no randomness, no I/O,
no module-level mutable state.  The modules live in ``vf/corpus/sut/`` (= ``CORPUS_DIR``, used directly as pynguin's
``project_path``) with ``module_name`` one of ``MODULES``; nothing is written here
(``PYTHONDONTWRITEBYTECODE=1``).  ``materialise`` copies a module under a unique name into a scratch
directory for checks that need per-case module names.
"""

from __future__ import annotations

import os
import shutil

#: pass this as pynguin's ``project_path``.  It is deliberately *not* a package (no ``__init__.py``): pynguin's
#: ``canonical_module_name`` climbs ``__init__.py`` files and would otherwise export ``import vf.corpus.<m>``.
CORPUS_DIR = os.path.join(os.path.dirname(os.path.abspath(__file__)), "sut")

MODULES = [
    "vfc_numeric",     # int branches, chained comparisons, elif ladders
    "vfc_strings",     # startswith/endswith/isdigit/... predicates, ValueError
    "vfc_containers",  # list/dict/set/tuple parameters, loops over containers
    "vfc_account",     # class with state + user exception + function over two instances
    "vfc_queue",       # bounded stack, two-slot queue: branches depend on fill level
    "vfc_enums",       # Enum / IntEnum parameters and results
    "vfc_floats",      # float results (pytest.approx assertions), ValueError
    "vfc_raising",     # built-in and user-defined exceptions, assert, try/except
    "vfc_defaults",    # default / keyword-only / Optional parameters
    "vfc_records",     # dataclass (mutable + frozen) with methods
]

#: extra modules used only by the whole-tool checks (C16, C18): several user exceptions with ``Raises:`` docs,
#: sets of strings as results, a class hierarchy with a base-class parameter type.
EXTRA_MODULES = ["vfx_ledger", "vfx_tags", "vfx_shapes", "vfx_cli"]

#: modules whose public functions are pure and whose classes keep state only in instances —
#: i.e. *all* of them; kept as a separate name so a check can say what it relies on.
NO_HIDDEN_STATE = list(MODULES)


def path_of(name: str) -> str:
    return os.path.join(CORPUS_DIR, name + ".py")


def source_of(name: str) -> str:
    with open(path_of(name), encoding="utf-8") as fh:
        return fh.read()


def materialise(name: str, dst_dir: str, new_name: str | None = None) -> str:
    """Copy corpus module *name* into *dst_dir* (as *new_name*.py); returns the module name to use."""
    new_name = new_name or name
    os.makedirs(dst_dir, exist_ok=True)
    shutil.copyfile(path_of(name), os.path.join(dst_dir, new_name + ".py"))
    return new_name


def materialise_variant(name: str, dst_dir: str, strip_annotations: bool = False, new_name: str | None = None) -> str:
    """Like ``materialise``; with *strip_annotations* parameter/return annotations of functions are removed (class
    attribute annotations stay, dataclasses need them), which sends pynguin down its type-inference paths."""
    import ast

    new_name = new_name or name
    os.makedirs(dst_dir, exist_ok=True)
    src = source_of(name)
    if strip_annotations:
        tree = ast.parse(src)
        for node in ast.walk(tree):
            if isinstance(node, (ast.FunctionDef, ast.AsyncFunctionDef)):
                node.returns = None
                for a in [*node.args.posonlyargs, *node.args.args, *node.args.kwonlyargs, node.args.vararg, node.args.kwarg]:
                    if a is not None:
                        a.annotation = None
        src = ast.unparse(tree) + "\n"
    with open(os.path.join(dst_dir, new_name + ".py"), "w", encoding="utf-8") as fh:
        fh.write(src)
    return new_name


def materialise_package(name: str, dst_dir: str, package: str = "vfpkg", siblings: int = 4, strip_annotations: bool = False) -> str:
    """Puts corpus module *name* into a package *package* (with ``__init__.py``) next to *siblings* other corpus modules;
    returns the dotted module name to pass to pynguin (project path stays *dst_dir*)."""
    pkg_dir = os.path.join(dst_dir, package)
    os.makedirs(pkg_dir, exist_ok=True)
    with open(os.path.join(pkg_dir, "__init__.py"), "w", encoding="utf-8") as fh:
        fh.write('"""Corpus package."""\n')
    materialise_variant(name, pkg_dir, strip_annotations)
    others = [m for m in MODULES + EXTRA_MODULES if m != name][:siblings]
    for other in others:
        materialise(other, pkg_dir)
    return f"{package}.{name}"
