"""Fork-per-example isolation: run a function in a forked child, get a JSON-able result through a pipe.

Outcomes: ("ok", value) | ("exc", {"type","sig","detail"}) | ("signal", signo) | ("timeout", None) | ("exit", code)
A child killed by a signal (a wrongly shuffled stack can crash CPython) is an observation, not a harness error.
"""
from __future__ import annotations

import json
import os
import select
import signal
import time
from typing import Any, Callable

from vf.core import exc_detail, exc_sig, has_pynguin_frame


def forked(fn: Callable[[], Any], timeout: float = 60.0) -> tuple[str, Any]:
    r, w = os.pipe()
    pid = os.fork()
    if pid == 0:  # child
        os.close(r)
        code = 0
        try:
            try:
                payload = json.dumps(["ok", fn()], default=repr)
            except BaseException as exc:  # noqa: BLE001
                payload = json.dumps(["exc", {"type": type(exc).__name__, "sig": exc_sig(exc), "detail": exc_detail(exc),
                                              "pynguin_frame": has_pynguin_frame(exc)}])
            with os.fdopen(w, "w") as fh:
                fh.write(payload)
        except BaseException:  # noqa: BLE001
            code = 3
        finally:
            os._exit(code)
    os.close(w)
    chunks: list[bytes] = []
    deadline = time.time() + timeout
    timed_out = False
    while True:
        left = deadline - time.time()
        if left <= 0:
            timed_out = True
            break
        ready, _, _ = select.select([r], [], [], min(left, 1.0))
        if ready:
            b = os.read(r, 1 << 16)
            if not b:
                break
            chunks.append(b)
    os.close(r)
    if timed_out:
        try:
            os.kill(pid, signal.SIGKILL)
        except ProcessLookupError:
            pass
        os.waitpid(pid, 0)
        return ("timeout", None)
    _, status = os.waitpid(pid, 0)
    if os.WIFSIGNALED(status):
        return ("signal", os.WTERMSIG(status))
    data = b"".join(chunks)
    if not data:
        return ("exit", os.WEXITSTATUS(status))
    kind, val = json.loads(data)
    return (kind, val)
