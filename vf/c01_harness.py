"""Child-side harness of C01 (instrumentation transparency): programs, instrumentation wiring, observation, comparison.

``run_case(case, subsets, scratch, known)`` is executed inside a forked child (``vf.iso.forked``):

 1. the program of the case is written to ``<scratch>/c01_*/<module>.py`` and compiled once;
 2. *original runs*: the code object is executed in a fresh namespace and every call performed, twice; the first run is
    observed with ``vf.oracle.monitor`` (did the call execute a conditional branch?); an observable of a call that differs
    between the two plain runs is *unstable* and never compared;
 3. for every metric subset: fresh ``SubjectProperties`` (with a watching ``ExecutionTracer`` subclass that only records
    which tracer entry point raised and for which operand classes), ``build_transformer(sp, metrics, ToCoverConfiguration(),
    DynamicConstantProvider(...))`` exactly as ``InstrumentationFinder.find_spec`` builds it, ``instrument_code`` on the
    module code object (pygen / template family) or on the code objects of the listed functions (stdlib family), execution
    under ``with sp.instrumentation_tracer:``, every call on freshly materialised arguments;
 4. comparison of the observables, first difference per (call, subset); the failures of the 8 runs are then attributed to the
    smallest metric subset that shows the same (observable, location).

Signature = ``<metric subset class>|<first differing observable>|<innermost pynguin frame, else construct class>[|operand classes]``.
"""

from __future__ import annotations

import builtins
import contextlib
import decimal
import fractions
import io
import itertools
import linecache
import math
import os
import re
import shutil
import sys
import tempfile
import traceback
from typing import Any

from hypothesis import strategies as st

from vf.core import exc_detail, h12, jdump
from vf.gen import pygen
from vf.gen import values as V

CHILD_TIMEOUT = 120.0
SUBSETS: list[list[str]] = [[], ["BRANCH"], ["LINE"], ["CHECKED"], ["BRANCH", "LINE"], ["BRANCH", "CHECKED"],
                            ["CHECKED", "LINE"], ["BRANCH", "CHECKED", "LINE"]]


def subset_name(subset: list[str]) -> str:
    return "+".join(sorted(subset)) if subset else "SEEDING"


# ------------------------------------------------------------------------------------------ the hazard templates
C01_TEMPLATE_SOURCE = '''\
G_STATE = 0
G_LOG = []


class Box:
    def __init__(self, mode, n):
        self.mode = mode
        self.n = n
        self.reads = 0

    @property
    def v(self):
        self.reads += 1
        G_LOG.append("v")
        print("get v", self.reads)
        if self.mode == "raise":
            raise ValueError("v")
        if self.mode == "none":
            return None
        if self.mode == "falsy":
            return 0
        return self.n

    def __getattr__(self, name):
        self.__dict__["reads"] = self.__dict__.get("reads", 0) + 100
        G_LOG.append("getattr " + name)
        raise AttributeError(name)


class _CM:
    def __init__(self, swallow):
        self.swallow = swallow

    def __enter__(self):
        print("enter")
        return self

    def __exit__(self, et, ev, tb):
        print("exit", et is None)
        return self.swallow


def t_cmp(a, b, op):
    if op == 0:
        if a < b:
            return "lt"
        return "not-lt"
    if op == 1:
        if a <= b:
            return "le"
        return "not-le"
    if op == 2:
        if a > b:
            return "gt"
        return "not-gt"
    if op == 3:
        if a >= b:
            return "ge"
        return "not-ge"
    if op == 4:
        if a == b:
            return "eq"
        return "not-eq"
    if a != b:
        return "ne"
    return "not-ne"


def t_cmp_while(a, b, op):
    n = 0
    if op < 2:
        while a < b and n < 3:
            n += 1
    elif op < 4:
        while n < 3 and a >= b:
            n += 1
    else:
        while not a == b:
            n += 1
            if n > 2:
                break
    return n


def t_cmp_expr(a, b, op):
    r = [a < b, a <= b, a > b, a >= b, a == b, a != b][op]
    return r


def t_chain(a, b, c):
    if a < b <= c:
        return 1
    if a == b != c:
        return 2
    return 0


def t_truth(a):
    if a:
        return "T"
    return "F"


def t_boolop(a, b):
    x = a and b
    y = a or b
    if a and b:
        return 1, x, y
    if a or b:
        return 2, x, y
    return 0, x, y


def t_not(a):
    if not a:
        return 1
    return 0


def t_in(x, c):
    if x in c:
        return 1
    return 0


def t_not_in(x, c):
    if x not in c:
        return 1
    return 0


def t_iter(c):
    n = 0
    for x in c:
        if x:
            n += 1
        if n > 2:
            break
    else:
        n = -n
    return n


def t_comp(c):
    xs = [x for x in c if x]
    ys = [x for x in xs if not x == 1]
    return xs, ys


def t_subscr(c, k):
    if c[k]:
        return 1
    return 0


def t_startswith(s, p):
    if s.startswith(p):
        return 1
    return 0


def t_endswith(s, p):
    if s.endswith(p):
        return 1
    return 0


def t_strpred(s):
    r = 0
    if s.isalnum():
        r += 1
    if s.isdigit():
        r += 2
    if s.islower():
        r += 4
    if s.isspace():
        r += 8
    return r


def t_attr(o):
    if o.v:
        return o.v
    return o.n


def t_attr_store(o, x):
    o.n = x
    o.extra = x
    if o.n == x:
        return o.reads
    return -1


def t_with(swallow, a):
    with _CM(swallow) as cm:
        if a:
            raise ValueError("x")
        return 1
    return 2


def t_match(x):
    match x:
        case 0 | 1:
            return "small"
        case int() | float() if x > 10:
            return "big"
        case str() as s:
            return "str" + s[:1]
        case [a, b]:
            return "pair"
        case [a, *rest]:
            return len(rest)
        case {"a": v}:
            return "dict-a"
        case None:
            return "none"
        case _:
            return "other"


def t_exc(e, n):
    global G_STATE
    try:
        raise e
    except (KeyError, IndexError):
        return "lookup"
    except ValueError as err:
        return "value"
    except ArithmeticError:
        return "arith"
    except Exception:
        return "exc"
    finally:
        G_STATE += n


def t_none(a):
    if a is None:
        return 0
    if a is not None:
        return 1
    return 2


def t_global(x):
    global G_STATE
    G_STATE = x
    if G_STATE == x:
        return 1
    return 0


def t_gen(c):
    def g():
        for x in c:
            if x:
                yield x
    return list(g())


def t_print(a):
    print("before")
    if a:
        print("truthy")
    print("after")


def t_minmax(c):
    best = None
    for x in c:
        if best is None or x < best:
            best = x
    return best


def t_sorted(c):
    out = []
    for x in c:
        i = len(out)
        while i > 0 and out[i - 1] > x:
            i -= 1
        out.insert(i, x)
    return out


def t_unpack(c):
    a, *b = c
    if b:
        return a
    return None


def t_ternary(a, x):
    return x if a else -x


def t_assert(a):
    assert a, "msg"
    return 1


def t_lambda(a, x):
    f = lambda y: y if y > a else a
    return f(x)


def t_closure(x, a):
    n = 0

    def inc():
        nonlocal n
        if a:
            n += 1
        return n
    inc()
    inc()
    return n == x


def t_del(a):
    if a:
        y = 1
    del y
    return 5


def t_tryfinally(a, x):
    try:
        if a < x:
            return "lt"
    except TypeError:
        return "te"
    finally:
        G_LOG.append("f")
    return "ge"
'''


# functions of the template module that hit a *known* CHECKED defect; the "lite" variant of the module omits them
TEMPLATE_LITE_DROPS = ("def t_with(", "def t_comp(", "def t_del(", "class _CM:")


def template_source(variant: str, targets: set[str] | None = None) -> str:
    """The template module; ``lite`` omits the known CHECKED hazards; ``targets`` keeps only the named ``t_*`` functions
    (the prelude classes and globals always stay), which keeps the instrumentation cost proportional to the case."""
    blocks = C01_TEMPLATE_SOURCE.split("\n\n\n")
    if variant == "lite":
        blocks = [b for b in blocks if not b.startswith(TEMPLATE_LITE_DROPS)]
    if targets is not None:
        blocks = [b for b in blocks if not b.startswith("def t_") or b[4:b.index("(")] in targets]
    return "\n\n\n".join(blocks)


# ------------------------------------------------------------------------------------------ the stdlib corpus
def _s(mod: str, instr: list[str], call: str, shape: str, block: tuple[str, ...] = (), known: str | None = None,
       heavy: bool = False) -> dict[str, Any]:
    """``block``: C accelerator modules whose import is refused while the module source is executed; ``heavy``: instrumenting
    the listed functions under all 8 subsets costs more than ~4 CPU seconds (thorough tier only)."""
    return {"mod": mod, "instr": instr, "call": call, "shape": shape, "block": list(block), "known": known, "heavy": heavy}


_TW = ["TextWrapper.wrap", "TextWrapper._wrap_chunks", "TextWrapper._split", "TextWrapper._munge_whitespace",
       "TextWrapper._handle_long_word", "TextWrapper._split_chunks", "TextWrapper.fill"]
_TS = ["TopologicalSorter.add", "TopologicalSorter.prepare", "TopologicalSorter.get_ready", "TopologicalSorter.done",
       "TopologicalSorter._find_cycle", "TopologicalSorter.static_order", "TopologicalSorter._get_nodeinfo",
       "TopologicalSorter.is_active"]
_REPR = ["Repr.repr1", "Repr._repr_iterable", "Repr.repr_list", "Repr.repr_tuple", "Repr.repr_dict", "Repr.repr_str",
         "Repr.repr_int", "Repr.repr_instance", "Repr.repr_set", "_possibly_sorted"]
STDLIB: dict[str, dict[str, Any]] = {
    "bisect.bisect_left": _s("bisect", ["bisect_left"], "bisect_left(*args)", "bisect", ("_bisect",)),
    "bisect.bisect_right": _s("bisect", ["bisect_right"], "bisect_right(*args)", "bisect", ("_bisect",)),
    "bisect.insort_left": _s("bisect", ["insort_left", "bisect_left"], "insort_left(*args)", "bisect", ("_bisect",)),
    "bisect.insort_right": _s("bisect", ["insort_right", "bisect_right"], "insort_right(*args)", "bisect", ("_bisect",)),
    "heapq.heappush": _s("heapq", ["heappush", "_siftdown"], "heappush(*args)", "heap_item", ("_heapq",)),
    "heapq.heappop": _s("heapq", ["heappop", "_siftup", "_siftdown"], "heappop(*args)", "heap", ("_heapq",)),
    "heapq.heapify": _s("heapq", ["heapify", "_siftup", "_siftdown"], "heapify(*args)", "heap", ("_heapq",)),
    "heapq.heapreplace": _s("heapq", ["heapreplace", "_siftup"], "heapreplace(*args)", "heap_item", ("_heapq",)),
    "heapq.heappushpop": _s("heapq", ["heappushpop", "_siftup"], "heappushpop(*args)", "heap_item", ("_heapq",)),
    "heapq.nsmallest": _s("heapq", ["nsmallest"], "nsmallest(*args)", "n_iterable", ("_heapq",)),
    "heapq.nlargest": _s("heapq", ["nlargest"], "nlargest(*args)", "n_iterable", ("_heapq",)),
    "heapq.merge": _s("heapq", ["merge"], "list(merge(*args))", "two_iterables", ("_heapq",)),
    "colorsys.rgb_to_hls": _s("colorsys", ["rgb_to_hls"], "rgb_to_hls(*args)", "rgb"),
    "colorsys.hls_to_rgb": _s("colorsys", ["hls_to_rgb", "_v"], "hls_to_rgb(*args)", "rgb"),
    "colorsys.rgb_to_hsv": _s("colorsys", ["rgb_to_hsv"], "rgb_to_hsv(*args)", "rgb"),
    "colorsys.hsv_to_rgb": _s("colorsys", ["hsv_to_rgb"], "hsv_to_rgb(*args)", "rgb"),
    "fnmatch.translate": _s("fnmatch", ["translate"], "translate(*args)", "str1", heavy=True),
    "fnmatch.fnmatchcase": _s("fnmatch", ["fnmatchcase", "translate"], "fnmatchcase(*args)", "str2", heavy=True),
    "fnmatch.filter": _s("fnmatch", ["filter", "translate"], "filter(*args)", "strlist_str", heavy=True),
    "shlex.split": _s("shlex", ["split", "shlex.read_token", "shlex.get_token", "shlex.__next__"], "split(*args)", "str1", heavy=True),
    "shlex.quote": _s("shlex", ["quote"], "quote(*args)", "str1"),
    "shlex.join": _s("shlex", ["join", "quote"], "join(*args)", "strlist"),
    "textwrap.wrap": _s("textwrap", ["wrap", *_TW], "wrap(*args)", "str_int", heavy=True),
    "textwrap.shorten": _s("textwrap", ["shorten", *_TW], "shorten(*args)", "str_int", heavy=True),
    "textwrap.dedent": _s("textwrap", ["dedent"], "dedent(*args)", "str1"),
    "textwrap.indent": _s("textwrap", ["indent"], "indent(*args)", "str2"),
    "string.capwords": _s("string", ["capwords"], "capwords(*args)", "str1"),
    "reprlib.repr": _s("reprlib", _REPR, "repr(*args)", "any1"),
    "json.decoder.py_scanstring": _s("json.decoder", ["py_scanstring"], "py_scanstring(*args)", "str_int", ("_json",)),
    "json.encoder.py_encode_basestring": _s("json.encoder", ["py_encode_basestring"], "py_encode_basestring(*args)", "str1", ("_json",)),
    "json.encoder.py_encode_basestring_ascii": _s("json.encoder", ["py_encode_basestring_ascii"],
                                                  "py_encode_basestring_ascii(*args)", "str1", ("_json",)),
    "json.encoder.encode": _s("json.encoder", ["JSONEncoder.encode", "JSONEncoder.iterencode", "_make_iterencode"],
                              "JSONEncoder().encode(*args)", "json1", ("_json",), heavy=True),
    "base64.b64encode": _s("base64", ["b64encode"], "b64encode(*args)", "bytes1"),
    "base64.b16decode": _s("base64", ["b16decode"], "b16decode(*args)", "bytes1"),
    "base64.b32encode": _s("base64", ["b32encode", "_b32encode"], "b32encode(*args)", "bytes1"),
    "base64.b32decode": _s("base64", ["b32decode", "_b32decode"], "b32decode(*args)", "bytes1"),
    "base64.a85encode": _s("base64", ["a85encode", "_85encode"], "a85encode(*args)", "bytes1"),
    "base64.b85decode": _s("base64", ["b85decode"], "b85decode(*args)", "bytes1"),
    "base64.encodebytes": _s("base64", ["encodebytes", "_input_type_check"], "encodebytes(*args)", "bytes1"),
    "copy.deepcopy": _s("copy", ["deepcopy", "_deepcopy_list", "_deepcopy_tuple", "_deepcopy_dict", "_keep_alive", "_reconstruct"],
                        "deepcopy(*args)", "any1"),
    "copy.copy": _s("copy", ["copy", "_reconstruct"], "copy(*args)", "any1"),
    "graphlib.static_order": _s("graphlib", _TS, "list(TopologicalSorter(*args).static_order())", "graph"),
    "operator.countOf": _s("operator", ["countOf"], "countOf(*args)", "seq_item", ("_operator",)),
    "operator.indexOf": _s("operator", ["indexOf"], "indexOf(*args)", "seq_item", ("_operator",)),
    "operator.length_hint": _s("operator", ["length_hint"], "length_hint(*args)", "any1", ("_operator",)),
    "operator.truth": _s("operator", ["truth", "not_"], "(truth(*args), not_(*args))", "any1", ("_operator",)),
    "functools.reduce": _s("functools", ["reduce"], "reduce(lambda a, b: a if a < b else b, *args)", "iterable1", ("_functools",)),
    "functools.cmp_to_key": _s("functools", ["cmp_to_key"], "sorted(args[0], key=cmp_to_key(lambda a, b: (a > b) - (a < b)))",
                               "iterable1", ("_functools",)),
    "statistics.median": _s("statistics", ["median"], "median(*args)", "iterable1"),
    "statistics.multimode": _s("statistics", ["multimode"], "multimode(*args)", "iterable1"),
    "posixpath.normpath": _s("posixpath", ["normpath"], "normpath(*args)", "str1"),
    "posixpath.join": _s("posixpath", ["join"], "join(*args)", "str2"),
    "posixpath.split": _s("posixpath", ["split", "basename", "dirname"], "(split(*args), basename(*args))", "str1"),
    "ast.literal_eval": _s("ast", ["literal_eval"], "literal_eval(*args)", "literal", heavy=True),
}


def shape_strategy(shape: str) -> st.SearchStrategy:  # noqa: C901, PLR0911, PLR0912
    """Argument recipes (a list) for a stdlib function of the given shape."""
    num = V.choice(V.edge_numbers(), V.ints(), V.floats(), V.decimals(), V.fractions_())
    small = st.integers(-3, 9).map(lambda v: {"k": "int", "v": v})
    cmpo = V.objects("cmp")

    def lst(elem: st.SearchStrategy, kinds: tuple[str, ...] = ("list",), n: int = 6) -> st.SearchStrategy:
        return st.tuples(st.sampled_from(kinds), st.lists(elem, max_size=n)).map(lambda t: {"k": t[0], "items": t[1]})

    same_cls = st.tuples(V.class_recipes("cmp"), st.lists(st.integers(0, 3), max_size=5), st.integers(0, 3)).map(
        lambda t: ([{"k": "obj", "cls": t[0], "tag": g, "items": []} for g in t[1]], {"k": "obj", "cls": t[0], "tag": t[2], "items": []}))
    sorted_ints = st.tuples(st.lists(st.integers(-5, 9), max_size=6), small).map(
        lambda t: ([{"k": "int", "v": v} for v in sorted(t[0])], t[1]))
    family = V.choice(
        sorted_ints, sorted_ints,
        st.tuples(st.lists(num, max_size=5), num), st.tuples(st.lists(num, max_size=5), num),
        same_cls, same_cls, same_cls,
        st.tuples(st.lists(V.strs(3), max_size=5), V.strs(3)),
        st.tuples(st.lists(V.choice(small, cmpo, V.strs(2)), max_size=4), V.choice(small, cmpo)),
    )
    if shape == "bisect":
        return family.map(lambda t: [{"k": "list", "items": t[0]}, t[1]])
    if shape == "heap_item":
        return family.map(lambda t: [{"k": "list", "items": t[0]}, t[1]])
    if shape == "heap":
        return family.map(lambda t: [{"k": "list", "items": t[0]}])
    if shape == "n_iterable":
        return st.tuples(st.integers(-1, 4), st.sampled_from(["list", "tuple", "iter", "gen"]), family).map(
            lambda t: [{"k": "int", "v": t[0]}, {"k": t[1], "items": t[2][0]}])
    if shape == "two_iterables":
        return st.tuples(st.sampled_from(["list", "iter", "gen"]), family, family).map(
            lambda t: [{"k": t[0], "items": t[1][0]}, {"k": "list", "items": t[2][0]}])
    if shape == "iterable1":
        return st.tuples(st.sampled_from(["list", "tuple", "iter", "gen"]), family).map(lambda t: [{"k": t[0], "items": t[1][0]}])
    if shape == "seq_item":
        return st.tuples(st.sampled_from(["list", "tuple", "iter", "gen"]), family).map(lambda t: [{"k": t[0], "items": t[1][0]}, t[1][1]])
    if shape == "rgb":
        f = V.choice(st.sampled_from([0.0, 1.0, 0.5, 0.25, 0.75]).map(V._f), V.floats(), V.edge_numbers_of("float"), small)
        return st.tuples(f, f, f).map(list)
    pat = st.text(st.sampled_from(list("ab*?[]!-.\\ /'\"\n#$")), max_size=8).map(lambda s: {"k": "str", "v": s})
    text = V.choice(V.strs(8), pat, pat)
    if shape == "str1":
        return V.choice(text, text, text, V.bytess(), small).map(lambda r: [r])
    if shape == "str2":
        return st.tuples(text, V.choice(text, text, V.bytess())).map(list)
    if shape == "strlist":
        return lst(text, ("list", "tuple", "iter"), 4).map(lambda r: [r])
    if shape == "strlist_str":
        return st.tuples(lst(text, ("list", "tuple", "iter", "gen"), 4), text).map(list)
    if shape == "str_int":
        return st.tuples(text, st.integers(-1, 12).map(lambda v: {"k": "int", "v": v})).map(list)
    if shape == "bytes1":
        return V.choice(V.bytess(10), V.bytess(10), V.strs(6)).map(lambda r: [r])
    if shape == "any1":
        return V.values(2).map(lambda r: [r])
    if shape == "json1":
        leaf = V.choice(V.ints(), V.floats(), V.strs(4), V.nones(), V.bools(), V.decimals())
        inner = V.choice(leaf, lst(leaf, ("list", "tuple"), 3),
                         st.lists(st.tuples(V.choice(V.strs(2), small, V.floats(), V.nones()), leaf).map(list), max_size=3).map(
                             lambda xs: {"k": "dict", "items": xs}))
        return V.choice(inner, lst(inner, ("list", "tuple"), 3)).map(lambda r: [r])
    if shape == "graph":
        node = st.sampled_from(["a", "b", "c", "d"]).map(lambda s: {"k": "str", "v": s})
        return st.lists(st.tuples(node, lst(node, ("list", "tuple", "set"), 3)).map(list), max_size=4, unique_by=lambda kv: kv[0]["v"]).map(
            lambda xs: [{"k": "dict", "items": xs}])
    if shape == "literal":
        lit = st.sampled_from(["1", "-1", "1.5", "'a'", "[1, 2]", "(1,)", "{1: 2}", "{1, 2}", "None", "True", "1+2j", "-0.0", "b'x'",
                               "x", "1 +", "[1, [2, {3: None}]]", "set()", "--1", "1 + 2", "{**a}", "f()", ""])
        return lit.map(lambda s: [{"k": "str", "v": s}])
    raise ValueError(shape)


# ------------------------------------------------------------------------------------------ snapshots of live values
# object addresses inside strings (default reprs) differ between any two runs; two plain runs can agree on them by chance
_ADDRESS = re.compile(r"x[0-9a-f]{9,16}")


def _snap(v: Any, modname: str, consume: bool = False, depth: int = 0) -> Any:  # noqa: C901, PLR0911
    """``vf.gen.values.snapshot`` extended by instances of classes defined in the generated module (by ``__dict__``)."""
    if depth > 10:
        return ["deep"]
    tp = type(v)
    if tp in (list, tuple):
        return [tp.__name__, [_snap(x, modname, consume, depth + 1) for x in v]]
    if tp in (set, frozenset):
        return [tp.__name__, sorted((_snap(x, modname, consume, depth + 1) for x in v), key=jdump)]
    if tp is dict:
        return ["dict", [[_snap(a, modname, consume, depth + 1), _snap(b, modname, consume, depth + 1)] for a, b in v.items()]]
    if getattr(tp, "__module__", None) == modname and not isinstance(v, type) and hasattr(v, "__dict__") and not isinstance(
            v, BaseException):
        d = object.__getattribute__(v, "__dict__")
        return ["inst", tp.__qualname__, [[k, _snap(x, modname, consume, depth + 1)] for k, x in d.items()]]
    if isinstance(v, BaseException):
        return ["exc", tp.__name__, [_snap(a, modname, consume, depth + 1) for a in v.args]]
    spec = getattr(tp, "_vf_spec", None)
    if spec is not None and "_vf_tag" in getattr(v, "__dict__", {}):
        d = v.__dict__
        return ["obj", h12(spec), d["_vf_tag"], [_snap(x, modname, consume, depth + 1) for x in d["_vf_items"]],
                [_snap(x, modname, consume, depth + 1) for x in d["_vf_rest"]]]
    if hasattr(tp, "__next__") and hasattr(tp, "__iter__") and not isinstance(v, type):
        if consume:
            try:
                rest = [_snap(x, modname, consume, depth + 1) for x in itertools.islice(v, 64)]
            except BaseException as exc:  # noqa: BLE001  (a generator of the SUT may raise while being drained)
                rest = ["raises", type(exc).__name__]
            return ["iterator", tp.__name__, rest]
        return ["iterator", tp.__name__]
    if callable(v) and not isinstance(v, type) and hasattr(v, "__qualname__"):
        return ["callable", getattr(v, "__qualname__", "?")]
    if tp is str:
        v = _ADDRESS.sub("xADDR", v)  # default reprs ("<generator object f at 0x7f...>", also truncated by reprlib)
    return V.snapshot(v, consume)


def live_category(v: Any) -> str:  # noqa: C901, PLR0911, PLR0912
    """Coarse class of a live operand (for signatures; never contains values, calls no user dunder)."""
    tp = type(v)
    if v is None:
        return "none"
    if tp is bool:
        return "bool"
    if tp is int:
        a = abs(v)
        return "int>1e308" if a > V._FLT_MAX_INT else ("int>2**53" if a > 2**53 else "int")
    if tp is float:
        if v != v:
            return "float.nan"
        if math.isinf(v):
            return "float.inf"
        return "float.huge" if abs(v) >= 1e300 else "float"
    if tp is complex:
        return "complex"
    if tp is decimal.Decimal:
        return "decimal.nan" if v.is_nan() else ("decimal.inf" if v.is_infinite() else "decimal")
    if tp is fractions.Fraction:
        return "fraction"
    if tp in (str, bytes, bytearray, list, tuple, set, frozenset, dict, range, slice):
        return tp.__name__
    spec = getattr(tp, "_vf_spec", None)
    if spec is not None:
        m = V._all_methods(spec)
        parts = [V._obj_aspect(m, a) for a in ("cmp", "truth", "container")]
        parts = [p for p in parts if not p.startswith("no-")]
        return "obj." + ("+".join(parts) if parts else "bare")
    if isinstance(v, type):
        return "type"
    if hasattr(tp, "__next__") and hasattr(tp, "__iter__"):
        return "iterator"
    if isinstance(v, BaseException):
        return "exception"
    return "other"


# ------------------------------------------------------------------------------------------ watching tracer
def make_watch_tracer():
    """An ``ExecutionTracer`` that records which of its entry points raised, and for which operand classes."""
    from pynguin.instrumentation.tracer import ExecutionTracer

    class WatchTracer(ExecutionTracer):
        def __init__(self) -> None:
            super().__init__()
            self.raised: list[str] = []
            self.calls = 0

        def _note(self, name: str, exc: BaseException, operands: tuple) -> None:
            if len(self.raised) < 4:
                self.raised.append(f"{name}:{type(exc).__name__}:" + ",".join(live_category(o) for o in operands))

        def executed_compare_predicate(self, value1, value2, predicate, cmp_op) -> None:  # noqa: ANN001
            self.calls += 1
            try:
                ExecutionTracer.executed_compare_predicate(self, value1, value2, predicate, cmp_op)
            except BaseException as exc:
                self._note(f"compare.{getattr(cmp_op, 'name', cmp_op)}", exc, (value1, value2))
                raise

        def executed_bool_predicate(self, value, predicate) -> None:  # noqa: ANN001
            self.calls += 1
            try:
                ExecutionTracer.executed_bool_predicate(self, value, predicate)
            except BaseException as exc:
                self._note("bool", exc, (value,))
                raise

        def executed_in_presence_predicate(self, value1, value2, predicate) -> None:  # noqa: ANN001
            self.calls += 1
            try:
                ExecutionTracer.executed_in_presence_predicate(self, value1, value2, predicate)
            except BaseException as exc:
                self._note("subscr-in", exc, (value1, value2))
                raise

        def executed_exception_match(self, err, exc, predicate) -> None:  # noqa: ANN001
            self.calls += 1
            try:
                ExecutionTracer.executed_exception_match(self, err, exc, predicate)
            except BaseException as e2:
                self._note("exception-match", e2, (err, exc))
                raise

        def track_attribute_access(self, module, code_object_id, node_id, opcode, lineno, offset, attr_name, obj) -> None:  # noqa: ANN001, PLR0917
            self.calls += 1
            try:
                ExecutionTracer.track_attribute_access(self, module, code_object_id, node_id, opcode, lineno, offset, attr_name, obj)
            except BaseException as exc:
                self._note("attribute-access", exc, (obj,))
                raise

        def track_memory_access(self, module, code_object_id, node_id, opcode, lineno, offset, var_name, var_value) -> None:  # noqa: ANN001, PLR0917
            self.calls += 1
            try:
                ExecutionTracer.track_memory_access(self, module, code_object_id, node_id, opcode, lineno, offset, var_name, var_value)
            except BaseException as exc:
                self._note("memory-access", exc, (var_value,))
                raise

    return WatchTracer()


# ------------------------------------------------------------------------------------------ programs
class _Program:
    """Source, file, compiled code and call protocol of one case."""

    def __init__(self, case: dict[str, Any], workdir: str) -> None:
        self.case = case
        self.kind = case["kind"]
        self.spec: dict[str, Any] | None = None
        self.block: list[str] = []
        if self.kind == "pygen":
            self.src = pygen.render(case["module"])
            self.modname = "vfsut_" + h12(case["module"])
            self.line_kinds = {ln: info["kind"] for ln, info in pygen.line_map(case["module"]).items()}
        elif self.kind == "tmpl":
            self.src = template_source(case.get("variant", "full"), {c["target"] for c in case["calls"]})
            self.modname = "vfsut_c01tmpl"
            self.line_kinds = {}
        else:
            self.spec = STDLIB[case["func"]]
            import importlib

            real = importlib.import_module(self.spec["mod"])
            with open(real.__file__, encoding="utf-8") as fh:  # type: ignore[arg-type]
                self.src = fh.read()
            self.modname = "vfstd_" + self.spec["mod"].replace(".", "_")
            self.block = self.spec["block"]
            self.line_kinds = {}
        self.path = os.path.join(workdir, self.modname + ".py")
        with open(self.path, "w", encoding="utf-8") as fh:
            fh.write(self.src)
        self.code = compile(self.src, self.path, "exec")
        self.src_lines = self.src.splitlines()

    # -- namespaces
    def fresh_namespace(self) -> dict[str, Any]:
        ns: dict[str, Any] = {"__name__": self.modname, "__file__": self.path}
        if self.block:
            blocked = set(self.block)
            real_import = builtins.__import__

            def guarded_import(name, globals=None, locals=None, fromlist=(), level=0):  # noqa: A002, ANN001
                if name in blocked:
                    raise ImportError(f"accelerator {name} blocked by the C01 harness")
                return real_import(name, globals, locals, fromlist, level)

            ns["__builtins__"] = dict(builtins.__dict__, __import__=guarded_import)
        return ns

    def functions_to_instrument(self, ns: dict[str, Any]) -> list[Any]:
        out = []
        assert self.spec is not None
        for qual in self.spec["instr"]:
            parts = qual.split(".")
            obj = ns[parts[0]]
            for part in parts[1:]:
                obj = obj.__dict__[part]
            for attr in ("__func__", "fget", "__wrapped__"):
                inner = getattr(obj, attr, None)
                if inner is not None and hasattr(inner, "__code__"):
                    obj = inner
            out.append(obj)
        return out

    # -- calls
    def prepare(self, ns: dict[str, Any], call: dict[str, Any], live: dict[str, Any]) -> None:
        """Materialise the arguments freshly (kept in ``live``).  A failure here is a harness error, not an outcome."""
        if self.kind == "stdlib":
            live["args"] = [V.materialise(r) for r in call["args"]]
        else:
            live["args"] = [pygen.materialise(r, ns) for r in call.get("args", [])]
            if "." in call["target"]:
                live["init"] = [pygen.materialise(r, ns) for r in call.get("init", [])]

    def perform(self, ns: dict[str, Any], call: dict[str, Any], live: dict[str, Any]) -> Any:
        """Perform the call on the prepared arguments; generators are drained (64 items)."""
        if self.kind == "stdlib":
            assert self.spec is not None
            res = eval(self.spec["call"], ns, {"args": live["args"]})  # noqa: S307
        else:
            target = call["target"]
            if "." in target:
                cname, member = target.split(".", 1)
                live["recv"] = ns[cname](*live["init"])
                attr = getattr(live["recv"], member)
                res = attr(*live["args"]) if callable(attr) and call.get("kind") != "prop" else attr
            else:
                res = ns[target](*live["args"])
        if hasattr(res, "__next__") and hasattr(res, "send"):
            res = list(itertools.islice(res, 64))
        return res

    def where_of_line(self, lineno: int | None) -> str:
        """Construct class of a source line (used when a failure has no pynguin frame)."""
        if lineno is None or not 1 <= lineno <= len(self.src_lines):
            return "-"
        text = self.src_lines[lineno - 1]
        for pat, name in ((r"\.(startswith|endswith)\(", "strpred-with-arg"), (r"\.is[a-z]+\(\)", "strpred"), (r"^\s*with ", "with"),
                          (r"^\s*(match|case) ", "match"), (r"^\s*for ", "for"), (r" for .* in ", "comprehension"),
                          (r"^\s*(while|if|elif) ", "condition"), (r"^\s*except", "except"), (r"^\s*assert ", "assert")):
            if re.search(pat, text):
                return name
        return self.line_kinds.get(lineno, "statement")


def describe_case(case: dict[str, Any]) -> str:
    if case["kind"] == "pygen":
        return pygen.render(case["module"])
    if case["kind"] == "tmpl":
        return "hazard template module (vf/c01_harness.py: C01_TEMPLATE_SOURCE); calls: " + ", ".join(c["target"] for c in case["calls"])
    return "stdlib function " + case["func"] + " instrumenting " + ", ".join(STDLIB[case["func"]]["instr"])


def family_where(case: dict[str, Any]) -> str:
    return case["func"] if case["kind"] == "stdlib" else case["kind"]


# ------------------------------------------------------------------------------------------ observation
def _exc_location(prog: _Program, exc: BaseException) -> tuple[str | None, int | None]:
    """(innermost pynguin frame "file:function" or None, innermost line of the program's own file or None)."""
    pyn = None
    line = None
    for fr in traceback.extract_tb(exc.__traceback__):
        if "/pynguin/" in fr.filename:
            pyn = f"{os.path.basename(fr.filename)}:{fr.name}"
        elif fr.filename == prog.path:
            line = fr.lineno
    return pyn, line


def observe(prog: _Program, ns: dict[str, Any], call: dict[str, Any], tracer: Any = None) -> dict[str, Any]:
    """Perform one call and return its observables (JSON-able)."""
    live: dict[str, Any] = {}
    V.reset_log()
    buf = io.StringIO()
    old_stdout = sys.stdout
    sys.stdout = buf
    exc: BaseException | None = None
    res: Any = None
    try:
        with tracer if tracer is not None else contextlib.nullcontext():
            prog.prepare(ns, call, live)  # inside the tracer context: {"t": "obj"} recipes run constructors of the program
            try:
                res = prog.perform(ns, call, live)
            except MemoryError:
                raise
            except BaseException as e:  # noqa: BLE001  (generated code raises on purpose)
                exc = e
    finally:
        sys.stdout = old_stdout
    log = V.take_log()
    obs: dict[str, Any] = {"stdout": _ADDRESS.sub("xADDR", buf.getvalue()[:4000]), "log": [list(e) for e in log[:400]], "log_len": len(log)}
    if exc is not None:
        pyn, line = _exc_location(prog, exc)
        obs.update(kind="exc", exc=f"{type(exc).__module__}.{type(exc).__qualname__}", pyn=pyn, line=line,
                   tb=exc_detail(exc, 5)[-900:])
        obs["value"] = None
    else:
        obs.update(kind="ok", exc=None, pyn=None, line=None, tb="")
        obs["value"] = _snap(res, prog.modname, consume=True)
    obs["args"] = [_snap(a, prog.modname, consume=True) for a in live.get("args", [])]
    obs["iters"] = [i for i, a in enumerate(live.get("args", [])) if live_category(a) == "iterator"
                    or live_category(a).startswith("obj.") and "iter-self" in live_category(a)]
    obs["recv"] = _snap(live["recv"], prog.modname, consume=True) if "recv" in live else None
    obs["globals"] = snap_globals(prog, ns)
    del V.OPLOG[:]
    return obs


def snap_globals(prog: _Program, ns: dict[str, Any]) -> Any:
    out = []
    for name, val in ns.items():
        if name.startswith("__") or isinstance(val, type) or callable(val) or type(val).__name__ == "module":
            continue
        if prog.kind == "stdlib" and not isinstance(val, (int, float, str, bytes, list, dict, set, tuple, type(None))):
            continue
        out.append([name, _snap(val, prog.modname, consume=False)])
    return out


OBSERVABLES = ("kind", "exc", "value", "stdout", "args", "recv", "globals", "log")


def _first(log: list[list[str]]) -> list[tuple[str, str]]:
    seen: set[tuple[str, str]] = set()
    out = []
    for e in log:
        t = (e[0], e[1])
        if t not in seen:
            seen.add(t)
            out.append(t)
    return out


def compare(prog: _Program, call: dict[str, Any], o: dict[str, Any], i: dict[str, Any], stable: set[str],
            raised: list[str]) -> tuple[str, str, str] | None:
    """First differing observable of an instrumented run ``i`` against the original run ``o``: (observable, where, detail)."""
    target = call.get("target") or prog.case.get("func")
    tmpl_where = target if prog.kind == "tmpl" else None

    def where(default: str = "-") -> str:
        if i.get("pyn"):
            w = i["pyn"]
            if raised:
                w += "|" + raised[0]
            return w
        if i.get("line") is not None:
            return (tmpl_where + "/" if tmpl_where else "") + prog.where_of_line(i["line"])
        return tmpl_where or default

    ctx = f"call {jdump(call)[:500]}\noriginal: kind={o['kind']} exc={o['exc']} value={jdump(o['value'])[:200]}\n" \
          f"instrumented: kind={i['kind']} exc={i['exc']} value={jdump(i['value'])[:200]}\n{i['tb']}"
    if "kind" in stable and o["kind"] != i["kind"]:
        if i["kind"] == "exc":
            return (f"raises:{i['exc'].rsplit('.', 1)[-1]}", where(), ctx)
        return (f"swallows:{o['exc'].rsplit('.', 1)[-1]}", where(), ctx)
    if "exc" in stable and o["exc"] != i["exc"]:
        return (f"exception-type:{i['exc'].rsplit('.', 1)[-1]}-instead-of-{o['exc'].rsplit('.', 1)[-1]}", where(), ctx)
    # operation log of the logged user objects
    if "log" in stable:
        fo, fi = _first(o["log"]), _first(i["log"])
        so = set(fo)
        new = [e for e in fi if e not in so]
        if new:
            ops = sorted({e[0].rsplit(".", 1)[1] for e in new})
            owner = sorted({_log_owner_class(e[0]) for e in new})
            return ("new-operator:" + "+".join(ops), (tmpl_where or "-") + "|" + ",".join(owner),
                    f"{ctx}\nnew pairs: {new[:6]}\noriginal log: {o['log'][:12]}\ninstrumented log: {i['log'][:16]}")
        if o["log_len"] <= 400 and i["log_len"] <= 400:
            si = set(fi)
            if [e for e in fo if e in si] != fi:
                return ("operator-order", tmpl_where or "-", f"{ctx}\noriginal first occurrences: {fo[:12]}\ninstrumented: {fi[:12]}")
            missing = [e for e in fo if e not in si]
            if missing and o["kind"] == i["kind"]:
                ops = sorted({e[0].rsplit(".", 1)[1] for e in missing})
                return ("operator-missing:" + "+".join(ops), tmpl_where or "-",
                        f"{ctx}\nmissing pairs: {missing[:6]}\noriginal log: {o['log'][:12]}\ninstrumented log: {i['log'][:16]}")
    if "value" in stable and o["value"] != i["value"]:
        return ("return-value", where(), ctx)
    if "stdout" in stable and o["stdout"] != i["stdout"]:
        return ("stdout", where(), f"{ctx}\noriginal stdout {o['stdout'][:200]!r}\ninstrumented stdout {i['stdout'][:200]!r}")
    if "args" in stable and o["args"] != i["args"]:
        idx = next((n for n, (a, b) in enumerate(zip(o["args"], i["args"])) if a != b), 0)
        what = "iterator-consumed" if idx in o["iters"] else "argument-state"
        return (what, where(), f"{ctx}\nargument {idx} after the call: original {jdump(o['args'][idx])[:300]} instrumented "
                               f"{jdump(i['args'][idx])[:300]}")
    if "recv" in stable and o["recv"] != i["recv"]:
        return ("receiver-state", where(), f"{ctx}\nreceiver after the call: original {jdump(o['recv'])[:300]} instrumented "
                                           f"{jdump(i['recv'])[:300]}")
    if "globals" in stable and o["globals"] != i["globals"]:
        return ("globals", where(), f"{ctx}\nglobals after the call: original {jdump(o['globals'])[:300]} instrumented "
                                    f"{jdump(i['globals'])[:300]}")
    return None


def _log_owner_class(operator: str) -> str:
    """"A1f3c#2.__ne__" -> protocol class of the logged object that was called (from the cached class), else "obj"."""
    desc = operator.split("#", 1)[0]
    for cls in V._CLASS_CACHE.values():
        if getattr(cls, "_vf_desc", None) == desc:
            m = V._all_methods(cls._vf_spec)
            parts = [V._obj_aspect(m, a) for a in ("cmp", "truth", "container")]
            parts = [p for p in parts if not p.startswith("no-")]
            return "obj." + ("+".join(parts) if parts else "bare")
    return "obj"


# ------------------------------------------------------------------------------------------ the child
def preload() -> None:
    """Import what the child needs in the parent, so that a forked child starts with warm modules."""
    import bytecode  # noqa: F401
    import pynguin.analyses.constants  # noqa: F401
    import pynguin.configuration  # noqa: F401
    import pynguin.instrumentation.machinery  # noqa: F401
    import pynguin.instrumentation.tracer  # noqa: F401
    import pynguin.instrumentation.version  # noqa: F401


def _build(sp: Any, subset: list[str]) -> Any:
    """The transformer exactly as ``InstrumentationFinder.find_spec`` builds it (seeding always on)."""
    import pynguin.configuration as config
    from pynguin.analyses.constants import ConstantPool, DynamicConstantProvider, EmptyConstantProvider
    from pynguin.instrumentation.machinery import build_transformer

    provider = DynamicConstantProvider(ConstantPool(), EmptyConstantProvider(), probability=0, max_constant_length=1)
    metrics = {config.CoverageMetric[m] for m in subset}
    return build_transformer(sp, metrics, config.ToCoverConfiguration(), provider)


def _static_exclusion(prog: _Program, subset: list[str], known: list[str]) -> str | None:
    """Known shape that would make the whole (program, subset) run fail before anything else can be compared."""
    if "CHECKED" not in subset:
        return None
    shapes = checked_hazards(prog)
    for key, shape in (("checked-with-statement", "with"), ("checked-unbound-local", "unbound-local")):
        if key in known and shape in shapes:
            return key
    return None


def checked_hazards(prog: _Program) -> set[str]:
    """Which constructs with a known CHECKED defect the instrumented part of the program contains."""
    import ast

    cached = getattr(prog, "_hazards", None)
    if cached is not None:
        return cached
    tree = ast.parse(prog.src)
    roots: list[Any] = [tree]
    if prog.kind == "stdlib":
        assert prog.spec is not None
        wanted = {q.split(".")[-1] for q in prog.spec["instr"]}
        roots = [n for n in ast.walk(tree) if isinstance(n, (ast.FunctionDef, ast.AsyncFunctionDef)) and n.name in wanted]
    out: set[str] = set()
    for root in roots:
        for n in ast.walk(root):
            if isinstance(n, (ast.With, ast.AsyncWith)):
                out.add("with")
            elif isinstance(n, (ast.ListComp, ast.SetComp, ast.DictComp)):
                out.add("unbound-local")  # inlined comprehension: LOAD_FAST_AND_CLEAR / restoring STORE_FAST of an unbound local
            elif isinstance(n, ast.Delete) and any(isinstance(t, ast.Name) for t in n.targets):
                out.add("unbound-local")
    prog._hazards = out  # type: ignore[attr-defined]
    return out


def run_case(case: dict[str, Any], subsets: list[list[str]], scratch: str, known: list[str],
             progress: str | None = None) -> dict[str, Any]:  # noqa: C901, PLR0912, PLR0915
    """See the module docstring.  ``progress``: file that always names the step being executed (read after a crash)."""
    from pynguin.instrumentation.tracer import SubjectProperties

    def mark(text: str) -> None:
        if progress is not None:
            with open(progress, "w") as fh:
                fh.write(text)

    from vf.oracle.monitor import Monitor, all_code_objects

    res: dict[str, Any] = {"raw": [], "labels": [], "excluded": 0, "nontrivial": False, "evaluations": 0, "inconclusive": None,
                           "repeats": 0}
    workdir = tempfile.mkdtemp(prefix="c01_", dir=scratch)
    try:
        prog = _Program(case, workdir)
        calls = case["calls"]
        # ---- two plain runs
        plain: list[list[dict[str, Any]] | None] = []
        branchy = False
        for rnd in range(2):
            ns = prog.fresh_namespace()
            try:
                exec(prog.code, ns)  # noqa: S102
            except BaseException as exc:  # noqa: BLE001
                res["inconclusive"] = "original-module-raises:" + type(exc).__name__
                return res
            if rnd == 0:
                if prog.kind == "stdlib":
                    codes = []
                    for fn in prog.functions_to_instrument(ns):
                        codes.extend(all_code_objects(fn.__code__))
                else:
                    codes = all_code_objects(prog.code)
                obs_list = []
                with Monitor(codes, instructions=False) as mon:
                    for call in calls:
                        with mon.window() as w:
                            obs_list.append(observe(prog, ns, call))
                        obs_list[-1]["branchy"] = any(w.branches(c) for c in codes)
                        branchy = branchy or obs_list[-1]["branchy"]
                plain.append(obs_list)
            else:
                # shift the heap before the second plain run: behaviour that depends on object addresses (id()-based
                # hashes, default reprs) then shows up as "unstable" instead of being blamed on the instrumentation
                ballast = [object() for _ in range(1009)]
                plain.append([observe(prog, ns, call) for call in calls])
                del ballast
        first, second = plain[0], plain[1]
        assert first is not None and second is not None
        stable = []
        for a, b in zip(first, second):
            s = {k for k in OBSERVABLES if a[k] == b[k]}
            if a["log"] != b["log"]:
                s.discard("log")
            stable.append(s)
            if len(s) < len(OBSERVABLES):
                res["labels"].append("unstable-original-observable")
        for a in first:
            res["labels"].append("original:" + (a["kind"] if a["kind"] == "ok" else "raises"))
            if a["log"]:
                res["labels"].append("original:calls-user-operators")
        # ---- instrumented runs
        registered = False
        rechecked: set[int] = set()
        for subset in subsets:
            name = subset_name(subset)
            excl = _static_exclusion(prog, subset, known)
            if excl:
                res["excluded"] += len(calls)
                res["labels"].append("excluded:" + excl)
                continue
            sp = SubjectProperties()
            watch = make_watch_tracer()
            sp.instrumentation_tracer.tracer = watch
            tracer = sp.instrumentation_tracer
            ns = prog.fresh_namespace()
            try:
                mark(f"{name}|instrument")
                transformer = _build(sp, subset)
                if prog.kind == "stdlib":
                    exec(prog.code, ns)  # noqa: S102
                    for fn in prog.functions_to_instrument(ns):
                        fn.__code__ = transformer.instrument_code(fn.__code__, prog.modname)
                    module_exc = None
                else:
                    icode = transformer.instrument_code(prog.code, prog.modname)
                    module_exc = None
                    mark(f"{name}|module")
                    with tracer:
                        try:
                            exec(icode, ns)  # noqa: S102
                        except BaseException as exc:  # noqa: BLE001
                            module_exc = exc
            except MemoryError:
                raise
            except BaseException as exc:  # noqa: BLE001
                pyn, _ = _exc_location(prog, exc)
                msg = re.sub(r"\d+", "N", str(exc))[:60]
                res["raw"].append([subset, f"instrumentation-raises:{type(exc).__name__}", f"{pyn or 'no-pynguin-frame'}|{msg}",
                                   f"metrics {name}: instrument_code raised\n{exc_detail(exc, 6)}\n{_program_excerpt(prog)}"])
                res["evaluations"] += 1
                continue
            if module_exc is not None:
                pyn, line = _exc_location(prog, module_exc)
                where = pyn or prog.where_of_line(line)
                res["raw"].append([subset, f"module-execution-raises:{type(module_exc).__name__}", where,
                                   f"metrics {name}: executing the instrumented module raised (the original module does not)\n"
                                   f"{exc_detail(module_exc, 6)}\n{_program_excerpt(prog)}"])
                res["evaluations"] += 1
                continue
            registered = registered or bool(sp.existing_predicates) or bool(sp.existing_lines)
            tracer.enable()
            for idx, call in enumerate(calls):
                del watch.raised[:]
                tracer.enable()
                mark(f"{name}|call|{call.get('target') or prog.case.get('func')}")
                inst = observe(prog, ns, call, tracer)
                res["evaluations"] += 1
                o = first[idx]
                if inst["log_len"] > o["log_len"]:
                    res["repeats"] += 1
                diff = compare(prog, call, o, inst, stable[idx], list(watch.raised))
                if diff is not None and idx not in rechecked:
                    # second line of defence against address-dependent programs (id()-based hashes of NaN / plain objects
                    # order a set, default reprs): by now the heap looks completely different, so two more plain runs
                    # that still agree with the first one make a coincidence unlikely
                    rechecked.add(idx)
                    stable[idx] &= _late_stability(prog, calls, idx, o)
                    diff = compare(prog, call, o, inst, stable[idx], list(watch.raised))
                    if diff is None:
                        res["labels"].append("dropped:original-unstable-on-recheck")
                if diff is not None:
                    observable, where, detail = diff
                    res["raw"].append([subset, observable, where, f"metrics {name}: {detail}\n{_program_excerpt(prog, inst.get('line'))}"])
                    break  # later calls run in a namespace whose state may already differ
        res["nontrivial"] = bool(branchy and registered)
        if res["repeats"]:
            res["labels"].append("repeated-user-operator")
        mark("done")
        return res
    finally:
        linecache.clearcache()
        shutil.rmtree(workdir, ignore_errors=True)


def _late_stability(prog: _Program, calls: list[dict[str, Any]], idx: int, reference: dict[str, Any]) -> set[str]:
    """Observables of call ``idx`` on which two further plain runs (different heap layouts) agree with the first plain run."""
    keys = set(OBSERVABLES)
    for rnd in range(2):
        ballast = [[float(i), (i, str(i)), {i: None}, object()] for i in range(200 + 317 * rnd)]
        ns = prog.fresh_namespace()
        exec(prog.code, ns)  # noqa: S102
        again = None
        for call in calls[:idx + 1]:
            again = observe(prog, ns, call)
        del ballast
        assert again is not None
        keys = {k for k in keys if again[k] == reference[k]}
    return keys


def _program_excerpt(prog: _Program, focus: int | None = None) -> str:
    if prog.kind == "pygen":
        lines = prog.src_lines
        return "\n".join(f"{'>>' if n + 1 == focus else '  '}{n + 1:3d} {ln}" for n, ln in enumerate(lines[:70]))
    if focus is not None and 1 <= focus <= len(prog.src_lines):
        lo = max(0, focus - 6)
        return "\n".join(f"{'>>' if n + 1 == focus else '  '}{n + 1:4d} {ln}" for n, ln in enumerate(prog.src_lines[lo:focus + 3], lo))
    return describe_case(prog.case)[:300]


# ------------------------------------------------------------------------------------------ attribution (parent side)
def crash_where(case: dict[str, Any], step: str) -> str:
    """Location class of a crash / hang from the progress marker "<metrics>|instrument" | "...|module" | "...|call|<target>"."""
    parts = step.split("|")
    phase = parts[1] if len(parts) > 1 else "?"
    if case["kind"] == "tmpl" and phase == "call":
        return "call:" + parts[2]
    if case["kind"] == "stdlib":
        return f"{phase}:{case['func']}"
    if case["kind"] == "pygen":
        feats = set(pygen.features_of(case["module"]))
        marks = [m for m, fs in (("comprehension", {"listcomp", "setcomp", "dictcomp"}), ("with", {"with"}), ("match", {"match"}),
                                 ("genfunc", {"genfunc"}), ("class", {"class"})) if feats & fs]
        return f"{phase}:pygen[{'+'.join(marks)}]"
    return phase


def merge_results(results: list[dict[str, Any]], crashes: list[list[Any]] | None = None) -> dict[str, Any]:
    """Merge child results and attribute every failure to the smallest metric subset showing the same (observable, where)."""
    merged: dict[str, Any] = {"failures": [], "labels": [], "excluded": 0, "nontrivial": False, "evaluations": 0, "inconclusive": None}
    raw: list[list[Any]] = list(crashes or [])
    for r in results:
        raw.extend(r["raw"])
        merged["labels"].extend(r["labels"])
        merged["excluded"] += r["excluded"]
        merged["nontrivial"] = merged["nontrivial"] or r["nontrivial"]
        merged["evaluations"] += r["evaluations"]
        merged["inconclusive"] = merged["inconclusive"] or r["inconclusive"]
    groups: dict[tuple[str, str], list[list[Any]]] = {}
    for subset, observable, where, detail in raw:
        groups.setdefault((observable, where), []).append([subset, detail])
    for (observable, where), items in groups.items():
        items.sort(key=lambda it: (len(it[0]), SUBSETS.index(sorted(it[0])) if sorted(it[0]) in SUBSETS else 99))
        minimal = items[0][0]
        # all failing subsets must be supersets of the minimal one for a clean attribution; otherwise name the common part
        common = set(minimal)
        for subset, _ in items:
            common &= set(subset)
        cls = subset_name(sorted(common)) if common else ("SEEDING" if not minimal else "ANY:" + subset_name(minimal))
        also = ", ".join(subset_name(s) for s, _ in items[1:])
        merged["failures"].append([f"{cls}|{observable}|{where}", items[0][1] + (f"\nalso under: {also}" if also else "")])
    return merged
