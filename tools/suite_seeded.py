#!/venv/bin/python
"""Runs the whole repository suite (vs BASELINE stable_pass) against every seeded change that has no suite verdict yet;
records it in seeded/<id>/meta.json ("suite"). Tests that are flaky under machine load are re-run alone before being counted."""
import glob, json, os, shutil, subprocess, sys, tempfile
ids = sys.argv[1:] or sorted(os.path.basename(os.path.dirname(p)) for p in glob.glob("/verif/seeded/*/meta.json"))
for sid in ids:
    mp = f"/verif/seeded/{sid}/meta.json"
    m = json.load(open(mp))
    if "suite" in m and m["suite"].get("final"):
        continue
    wt = f"/tmp/suite_{sid}"
    subprocess.run(["git", "-C", "/repo", "worktree", "remove", "--force", wt], capture_output=True)
    subprocess.run(["git", "-C", "/repo", "worktree", "add", "--detach", wt, "HEAD"], capture_output=True)
    try:
        a = subprocess.run(["git", "-C", wt, "apply", f"/verif/seeded/{sid}/patch.diff"], capture_output=True, text=True)
        if a.returncode:
            m["suite"] = {"final": True, "exit": None, "note": "patch does not apply to HEAD"}; json.dump(m, open(mp, "w"), indent=1); continue
        r = subprocess.run(["nice", "-n", "10", "/verif/tools/suite.py", wt, "-n", "6"], capture_output=True, text=True)
        missing = [l.split("NOT PASSING:")[1].strip() for l in r.stdout.splitlines() if "NOT PASSING:" in l]
        still = []
        env = {k: v for k, v in os.environ.items() if k not in ("SE2P_PYNGUIN_VERIF", "VERIF_REPO")}
        env["PYTHONPATH"] = f"{wt}/src"
        for t in missing:  # re-run alone (load-sensitive subprocess tests)
            mod, name = t.split("::", 1)
            path = mod.replace(".", "/") + ".py"
            ok = False
            for _ in range(3):
                rr = subprocess.run(["/venv/bin/python", "-m", "pytest", "-q", "-p", "no:cacheprovider", f"{path}::{name}"], cwd=wt, env=env, capture_output=True, text=True)
                if rr.returncode == 0: ok = True; break
            if not ok: still.append(t)
        m["suite"] = {"final": True, "exit": 0 if not still else 1, "summary": (r.stdout.strip().splitlines() or [""])[0][:200],
                      "not_passing_after_rerun": still, "flaky_passed_on_rerun": [t for t in missing if t not in still]}
        json.dump(m, open(mp, "w"), indent=1)
        print(sid, m["suite"]["exit"], still, flush=True)
    finally:
        subprocess.run(["git", "-C", "/repo", "worktree", "remove", "--force", wt], capture_output=True)
        shutil.rmtree(wt, ignore_errors=True)
