#!/venv/bin/python
"""Runs the repository's pinned test suite (guard OFF) and compares with BASELINE.json stable_pass.
usage: tools/suite.py [repo_dir] [-n N]   -> prints tests of stable_pass that did not pass; exit 0 iff none."""
import json, os, subprocess, sys, tempfile, xml.etree.ElementTree as ET
repo = sys.argv[1] if len(sys.argv) > 1 and not sys.argv[1].startswith("-") else "/repo"
n = sys.argv[sys.argv.index("-n") + 1] if "-n" in sys.argv else None
base = json.load(open("/root/.vp/BASELINE.json"))
junit = tempfile.mktemp(suffix=".xml")
env = {k: v for k, v in os.environ.items() if k not in ("SE2P_PYNGUIN_VERIF", "VERIF_REPO")}
env["PYTHONPATH"] = f"{repo}/src"
cmd = ["/venv/bin/python", "-m", "pytest", "-ra", "-q", "-p", "no:cacheprovider", "--timeout=900", "--continue-on-collection-errors", f"--junitxml={junit}"]
if n: cmd += ["-n", n]
r = subprocess.run(cmd, cwd=repo, env=env, capture_output=True, text=True)
passed = set()
for tc in ET.parse(junit).getroot().iter("testcase"):
    if not any(c.tag in ("failure", "error", "skipped") for c in tc):
        passed.add(f"{tc.get('classname')}::{tc.get('name')}")
missing = [t for t in base["stable_pass"] if t not in passed]
print(r.stdout.strip().splitlines()[-1] if r.stdout.strip() else r.stderr[-500:])
print(f"stable_pass: {len(base['stable_pass'])}, passed now: {len(passed)}, stable tests not passing: {len(missing)}")
for t in missing[:40]: print("  NOT PASSING:", t)
os.remove(junit)
sys.exit(1 if missing else 0)
