#!/venv/bin/python
"""Confirms a seeded defect delivered by a mutant agent and files it under /verif/seeded/<id>/.

usage: tools/confirm_seeded.py <seed-id e.g. C34-1> <property> <patch> <demo> <notes> [--tests <pytest paths...>] [--suite] [--checks C34,C19]

Steps (all in a scratch git worktree of /repo HEAD under /tmp, removed afterwards):
 demo on unchanged tree must exit 0; patch applies; demo must exit != 0; related tests (or the whole suite vs BASELINE stable_pass
 with --suite) must pass; each listed check's quick tier is run against the patched tree (VERIF_REPO) and its verdict recorded.
"""
import json, os, shutil, subprocess, sys, time

def run(cmd, **kw):
    return subprocess.run(cmd, capture_output=True, text=True, **kw)

def main():
    sid, prop, patch, demo, notes = sys.argv[1:6]
    rest = sys.argv[6:]
    tests, checks, suite = [], [prop], False
    i = 0
    while i < len(rest):
        if rest[i] == "--tests":
            i += 1
            while i < len(rest) and not rest[i].startswith("--"):
                tests.append(rest[i]); i += 1
            continue
        if rest[i] == "--suite": suite = True
        if rest[i] == "--checks": checks = rest[i + 1].split(","); i += 1
        i += 1
    wt = f"/tmp/confirm_{sid}"
    run(["git", "-C", "/repo", "worktree", "remove", "--force", wt])
    r = run(["git", "-C", "/repo", "worktree", "add", "--detach", wt, "HEAD"])
    assert r.returncode == 0, r.stderr
    meta = {"id": sid, "property": prop, "base_commit": run(["git", "-C", "/repo", "rev-parse", "HEAD"]).stdout.strip(), "ran": []}
    env = dict(os.environ, PYTHONPATH=f"{wt}/src", PYNGUIN_DANGER_AWARE="1", PYTHONDONTWRITEBYTECODE="1")
    env.pop("SE2P_PYNGUIN_VERIF", None)
    try:
        shutil.copy(demo, f"{wt}/demo_seed.py")
        d0 = run(["/venv/bin/python", "demo_seed.py"], cwd=wt, env=env, timeout=1800)
        meta["demo_unchanged_exit"] = d0.returncode
        a = run(["git", "-C", wt, "apply", os.path.abspath(patch)])
        meta["patch_applies"] = a.returncode == 0
        if a.returncode: print("PATCH DOES NOT APPLY", a.stderr[:400])
        d1 = run(["/venv/bin/python", "demo_seed.py"], cwd=wt, env=env, timeout=1800)
        meta["demo_patched_exit"] = d1.returncode
        meta["demo_patched_tail"] = (d1.stdout + d1.stderr)[-600:]
        meta["ran"].append("demo on unchanged and on patched worktree")
        if tests:
            t = run(["/venv/bin/python", "-m", "pytest", "-q", "-p", "no:cacheprovider", "--timeout=900", *tests], cwd=wt, env=env)
            meta["related_tests"] = {"paths": tests, "exit": t.returncode, "tail": t.stdout.strip().splitlines()[-1:] }
            meta["ran"].append("related tests: " + " ".join(tests))
        if suite:
            s = run(["/verif/tools/suite.py", wt, "-n", "8"])
            meta["suite"] = {"exit": s.returncode, "tail": s.stdout.strip().splitlines()[-6:]}
            meta["ran"].append("whole suite vs BASELINE stable_pass (tools/suite.py)")
        os.remove(f"{wt}/demo_seed.py")
        meta["checks"] = {}
        for c in checks:
            cenv = dict(os.environ, VERIF_REPO=wt, VERIF_SCRATCH="/tmp", VERIF_REPLAY_DIR=f"{wt}/_replays", VERIF_EVIDENCE_DIR=f"{wt}/_evidence")
            t0 = time.time()
            r = run(["/verif/check", c, "quick"], cwd="/verif", env=cenv)
            sigs = [l.strip()[:300] for l in r.stdout.splitlines() if l.strip().startswith("signature:")]
            meta["checks"][c] = {"exit": r.returncode, "caught": r.returncode == 1, "signatures": sigs[:6], "wall_s": round(time.time() - t0)}
            meta["ran"].append(f"VERIF_REPO=<patched worktree> ./check {c} quick")
    finally:
        run(["git", "-C", "/repo", "worktree", "remove", "--force", wt])
        shutil.rmtree(wt, ignore_errors=True)
    out = f"/verif/seeded/{sid}"
    os.makedirs(out, exist_ok=True)
    old = json.load(open(f"{out}/meta.json")) if os.path.exists(f"{out}/meta.json") else {}
    if os.path.abspath(patch) != os.path.abspath(f"{out}/patch.diff"):
        shutil.copy(patch, f"{out}/patch.diff")
    if os.path.abspath(demo) != os.path.abspath(f"{out}/demo.py"):
        shutil.copy(demo, f"{out}/demo.py")
    meta["needs_to_manifest"] = open(notes).read() if os.path.exists(notes) else old.get("needs_to_manifest", "")
    if "suite" in old and "suite" not in meta:
        meta["suite"] = old["suite"]
    ok = meta.get("demo_unchanged_exit") == 0 and meta.get("demo_patched_exit") not in (0, None) and meta.get("patch_applies")
    meta["confirmed"] = bool(ok)
    json.dump(meta, open(f"{out}/meta.json", "w"), indent=1)
    print(json.dumps({k: meta[k] for k in ("id", "confirmed", "demo_unchanged_exit", "demo_patched_exit", "checks") if k in meta}, indent=1)[:1500])
    if "related_tests" in meta: print("related tests:", meta["related_tests"]["exit"], meta["related_tests"]["tail"])
    if "suite" in meta: print("suite:", meta["suite"])

main()
