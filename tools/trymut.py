#!/venv/bin/python
"""Sensitivity helper: copy /repo/src to a scratch dir, apply an edit, run a check against it, clean up.

usage: tools/trymut.py <Cnn>[,Cmm] <relative file> <old> <new> [tier]     (string replacement, must match once)
       tools/trymut.py <Cnn>[,Cmm] --patch <file.diff> [tier]               (git-style patch, -p1)
"""
import os, shutil, subprocess, sys, tempfile

def main():
    props = sys.argv[1].split(",")
    tmp = tempfile.mkdtemp(prefix="vfmut_")
    try:
        shutil.copytree("/repo/src", os.path.join(tmp, "src"), ignore=shutil.ignore_patterns("__pycache__"))
        if sys.argv[2] == "--patch":
            tier = sys.argv[4] if len(sys.argv) > 4 else "quick"
            r = subprocess.run(["patch", "-p1", "-s", "-d", tmp, "-i", os.path.abspath(sys.argv[3])])
            if r.returncode: sys.exit("patch failed")
        else:
            rel, old, new = sys.argv[2:5]
            tier = sys.argv[5] if len(sys.argv) > 5 else "quick"
            p = os.path.join(tmp, rel)
            s = open(p).read()
            n = s.count(old)
            if n != 1: sys.exit(f"pattern matches {n} times")
            open(p, "w").write(s.replace(old, new))
        rc = 0
        for prop in props:
            env = dict(os.environ, VERIF_REPO=tmp, VERIF_SCRATCH=tmp, VERIF_REPLAY_DIR=tmp + "/_replays", VERIF_EVIDENCE_DIR=tmp + "/_evidence")
            r = subprocess.run(["./check", prop, tier], cwd=os.path.dirname(os.path.dirname(os.path.abspath(__file__))), env=env, capture_output=True, text=True)
            lines = r.stdout.strip().splitlines()
            print(f"[{prop}] exit={r.returncode}")
            for l in lines[-8:]: print("   ", l[:300])
            if r.returncode == 2: print(r.stderr[-1500:])
            # replays written by a mutant run are not wanted in the checkout
    finally:
        shutil.rmtree(tmp, ignore_errors=True)

main()
