#!/venv/bin/python
"""Moves the known-finding entries written by the check builders (known_findings.d/*.json) into known_findings.json."""
import glob, json, os
main = json.load(open("/verif/known_findings.json"))
have = {(e["property"], e["key"]) for e in main["findings"]}
moved = 0
for f in sorted(glob.glob("/verif/known_findings.d/*.json")):
    for e in json.load(open(f)).get("findings", []):
        if (e["property"], e["key"]) not in have:
            main["findings"].append(e); have.add((e["property"], e["key"])); moved += 1
    os.remove(f)
main["findings"].sort(key=lambda e: (e["property"], e.get("status") != "known", e["key"]))
json.dump(main, open("/verif/known_findings.json", "w"), indent=1)
print("moved", moved, "entries; known:", sum(1 for e in main["findings"] if e["status"] == "known"), "fixed:", sum(1 for e in main["findings"] if e["status"] == "fixed"))
