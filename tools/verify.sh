#!/usr/bin/env bash
# usage: tools/verify.sh "<seeds>" C10 C11 ...   -> one line per (check, seed): exit code, summary
cd "$(dirname "$0")/.."
seeds="$1"; shift
for c in "$@"; do for s in $seeds; do
  out=$(VERIF_SEED=$s ./check $c quick 2>&1); rc=$?
  echo "$c seed=$s exit=$rc :: $(echo "$out" | grep -E "^C[0-9]+ quick" | tail -1)"
  [ $rc -ne 0 ] && echo "$out" | grep -E "signature|HARNESS|KNOWN" | cut -c1-300 | head -8
done; done
