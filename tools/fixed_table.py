#!/venv/bin/python
"""Rebuilds the status=fixed entries of known_findings.json from the fix: commits of /repo (property mapping below)."""
import json, subprocess
PROP = {  # commit subject fragment -> (property, key)
 "support negative indices": ("C34", "negative-index"),
 "consumed one-shot iterators twice": ("C34", "one-shot-iterators"),
 "issuperset rejected": ("C34", "issuperset-duplicates"),
 "tested tuples against dict keys": ("C10", "is-covered-dict-keys"),
 "string-hash order": ("C16", "crossover-hash-order"),
 "lacked 'import pytest'": ("C18", "missing-import-pytest"),
 "remove_unused_variables dropped assertions": ("C19", "remove-unused-variables-drops-assertions"),
 "COMBINED minimization removed": ("C22", "combined-ignores-protected-variables"),
 "POP_JUMP_IF_NONE": ("C03", "pop-jump-if-none-label"),
 "no line goal for instructions without": ("C02", "location-less-line-goal"),
 "rank selection divided by zero": ("C14", "rank-bias-one-and-index-overflow"),
 "HighOrderMutator.mutation_count": ("C28", "high-order-mutation-count"),
 "zero-iteration loop mutation": ("C28", "zero-iteration-identical-mutant"),
 "closing sys.stdout broke": ("C30", "closed-null-file"),
 "process-wide logging state": ("C30", "logging-state-not-restored"),
 "subtype_distance ignored the classes": ("C25", "distance-ignores-generic-classes"),
 "float assertions could not be rendered": ("C20", "negative-zero-and-nan-float-assertions"),
 "complex values were rendered": ("C20", "complex-values"),
 "enum members that are not plain": ("C20", "enum-members"),
 "isinstance assertions on types": ("C20", "isinstance-unnameable-types"),
 "dropped the sign of negative zero": ("C23", "negative-zero-literal"),
 "wrong positions in blocks with pseudo": ("C01", "instrumentation-positions-with-pseudo-instructions"),
 "numeric branch distances overflowed": ("C04", "numeric-distances"),
 "called operators the module under test": ("C04", "inverse-operator-evaluated"),
 "'in'/'not in' distances consumed": ("C04", "membership-side-effects"),
 "truthiness distance called __len__": ("C04", "truthiness-len-with-bool"),
 "exception-match outcome used issubclass": ("C04", "exception-match-virtual-subclass"),
 "tracer stayed disabled after an exception": ("C05", "temporarily-disable-without-finally"),
 "left cached fitness values stale": ("C12", "mutation-insert-after-restore"),
 "abandoned timed-out test thread": ("C32", "abandoned-thread-stops-tracer"),
 "failed on every with statement": ("C01", "checked-with-statement"),
 "asserted when a CALL starts": ("C01", "checked-call-first-in-block"),
 "every slice expression evaluated": ("C01", "checked-binary-slice-result"),
 "ran property getters and __getattr__": ("C01", "checked-attribute-access-side-effects"),
 "startswith/endswith with a tuple": ("C01", "seeding-startswith-tuple"),
 "stores to container elements on Python 3.12": ("C09", "subscript-stores-not-definitions-py312"),
 "single-block loop on its own test": ("C09", "single-block-loop-control-dependence"),
 "placeholder name '<lambda>'": ("C27", "lambda-visibility"),
 "ignore_methods had no effect": ("C27", "ignore-methods-for-methods"),
 "name mangling of private methods": ("C27", "name-mangling-guessed"),
 "incompatible generators for primitive": ("C26", "random-provider-primitive-requests"),
 "only the owning thread stops the tracer on exit": ("C32", "abandoned-thread-stops-tracer-2"),
 "compared cached values with themselves": ("C22", "coverage-guard-reads-cached-values"),
 "restoring the unminimized suite raised TypeError": ("C22", "restore-path-typeerror"),
 "root-dependent goals were missed": ("C07", "root-dependence-over-unlabelled-edges"),
 "kept a stale branch value": ("C07", "relinked-dependence-stale-branch-value"),
 "ignored for decorated functions": ("C08", "decorated-scope-lookup"),
 "only-cover skipped nested scopes": ("C08", "only-cover-nested-scopes"),
 "else clause whose body is a single if": ("C08", "else-with-single-if"),
 "branch goals were registered on excluded lines": ("C08", "predicate-on-excluded-line"),
 "scopes defined inside an excluded branch": ("C08", "scope-defined-in-excluded-branch"),
 "ran __iter__ of collection subclasses": ("C01", "tracer-runs-user-iter-and-getattr-dict"),
 "undefined between a tuple type and a union": ("C25", "tuple-vs-union-distance-undefined"),
 "KeyError for a loop in dead code": ("C06", "dead-code-cycle"),
 "beyond chromosome_length": ("C15", "insertion-exceeds-chromosome-length"),
 "statements binding a lambda": ("C24", "seed-parser-drops-lambda-statements"),
 "attribute names as variable reads": ("C24", "seed-parser-drops-type-name-assertions"),
 "keyword-argument names that equal": ("C24", "seed-parser-rewrites-keyword-names"),
 "filesystem isolation modified and deleted": ("C29", "pre-existing-paths-modified"),
}
log = subprocess.run(["git", "-C", "/repo", "log", "--reverse", "--format=%h\t%s", "f3b3f37..HEAD"], capture_output=True, text=True).stdout
k = json.load(open("/verif/known_findings.json"))
k["findings"] = [e for e in k["findings"] if e.get("status") != "fixed"]
unmapped = []
for line in log.splitlines():
    h, s = line.split("\t", 1)
    if not s.startswith("fix:"): continue
    hit = next((v for frag, v in PROP.items() if frag in s), None)
    if hit is None: unmapped.append(line); continue
    what = s[len("fix:"):].strip()
    k["findings"].append({"property": hit[0], "key": hit[1], "status": "fixed", "commit": h, "what": what,
                          "line": f"fixed: property={hit[0]} {h} {what}"})
json.dump(k, open("/verif/known_findings.json", "w"), indent=1)
print(len([e for e in k["findings"] if e["status"] == "fixed"]), "fixed entries;", "UNMAPPED:", unmapped)
