#!/venv/bin/python
"""Re-runs, for every seeded change (or the ids given), the listed checks' quick tier against the changed tree and
updates seeded/<id>/meta.json ("checks"). usage: tools/resweep.py [--only-missed] [id ...]"""
import json, os, shutil, subprocess, sys, tempfile, time, glob

def main():
    args = [a for a in sys.argv[1:] if not a.startswith("--")]
    only_missed = "--only-missed" in sys.argv
    ids = args or sorted(os.path.basename(os.path.dirname(p)) for p in glob.glob("/verif/seeded/*/meta.json"))
    for sid in ids:
        mp = f"/verif/seeded/{sid}/meta.json"
        m = json.load(open(mp))
        checks = list(m.get("checks", {m["property"]: {}}).keys()) or [m["property"]]
        if only_missed and any(v.get("caught") for v in m.get("checks", {}).values()):
            continue
        tmp = tempfile.mkdtemp(prefix="vfsweep_")
        try:
            shutil.copytree("/repo/src", tmp + "/src", ignore=shutil.ignore_patterns("__pycache__"))
            r = subprocess.run(["patch", "-p1", "-s", "--no-backup-if-mismatch", "-d", tmp, "-i", f"/verif/seeded/{sid}/patch.diff"], capture_output=True, text=True)
            if r.returncode:
                m["patch_applies_to_head"] = False
                print(sid, "PATCH NO LONGER APPLIES", r.stdout[:200]); json.dump(m, open(mp, "w"), indent=1); continue
            m["patch_applies_to_head"] = True
            m["checks"] = {}
            for c in checks:
                env = dict(os.environ, VERIF_REPO=tmp, VERIF_SCRATCH=tmp, VERIF_REPLAY_DIR=tmp + "/_replays", VERIF_EVIDENCE_DIR=tmp + "/_evidence")
                t0 = time.time()
                r = subprocess.run(["/verif/check", c, "quick"], cwd="/verif", env=env, capture_output=True, text=True)
                sigs = [l.strip()[:300] for l in r.stdout.splitlines() if l.strip().startswith("signature:")]
                m["checks"][c] = {"exit": r.returncode, "caught": r.returncode == 1, "signatures": sigs[:6], "wall_s": round(time.time() - t0)}
            m["swept_at_repo_commit"] = subprocess.run(["git", "-C", "/repo", "rev-parse", "--short", "HEAD"], capture_output=True, text=True).stdout.strip()
            json.dump(m, open(mp, "w"), indent=1)
            print(sid, {c: ("caught" if v["caught"] else f"missed(exit {v['exit']})") for c, v in m["checks"].items()}, flush=True)
        finally:
            shutil.rmtree(tmp, ignore_errors=True)

main()
