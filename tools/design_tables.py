#!/venv/bin/python
"""Regenerates the generated tables of DESIGN.md (between <!-- TABLES:BEGIN --> and <!-- TABLES:END -->)."""
import glob, json, os, re
k = json.load(open("/verif/known_findings.json"))["findings"]
out = []
out.append("### 9.4 Genuine defects repaired in se2p/pynguin (`fix:` commits, one per root cause)\n")
out.append("| property | commit | what failed |\n|---|---|---|")
for e in sorted([e for e in k if e["status"] == "fixed"], key=lambda e: e["property"]):
    out.append(f"| {e['property']} | `{e['commit']}` | {e['what']} |")
out.append("\n### 9.5 Known findings (genuine defects recorded, not repaired)\n")
out.append("Each entry is matched by a signature regex (specific input class / call site), has a committed replay file, is printed as "
           "`KNOWN-FINDING:` by its check, and its shape is excluded or bucketed so that any other violation is still reported.\n")
out.append("| property | key | what fails | why not repaired |\n|---|---|---|---|")
WHY = {
 ("C01", "checked-unbound-local"): "needs a redesign of how CHECKED instruments locals that may be unbound (LOAD_FAST of a NULL local); no small safe patch",
 ("C09", "recursion-frame-blind-local-uses"): "needs frame-aware use tracking in the slicer (uses are keyed by (name, code object id)); not a small patch",
 ("C09", "recursion-reentrant-return-line"): "same root cause, seen through a helper called from the recursive function (found by the thorough tier)",
 ("C03", "membership-test-raises"): "predicates are observed *before* the instruction executes; reporting nothing for a raising `in` needs a post-hook",
 ("C06", "multi-label-yield-cond"): "representation limit: one `branch_value` per CDG edge; a fix changes the edge data model used by DynaMOSA",
 ("C06", "multi-label-infinite-loop"): "same representation limit",
 ("C07", "c06-both-outcomes-label"): "consequence of the C06 finding at goal-graph level",
 ("C24", "imported-exception-in-raises"): "repair changes the shared LLM deserializer's handling of `pytest.raises` wrappers; maintainer decision",
 ("C25", "generic-args-covariant-distance"): "behaviour pinned by the repository test `test_subtype_distance`",
 ("C26", "generic-args-covariant-distance"): "inherited from C25",
 ("C26", "none-member-never-matched-by-distance"): "distance visitor defines no distance from NoneType by design; pinned by tests",
 ("C26", "tuple-request-needs-tuple-generator"): "pinned by `(tuple, Any, None)` in `test_subtype_distance`",
 ("C27", "nonpublic-class"): "documentation says public only, but `test_element_visibility_config` expects `_ProtectedClass.*` under PUBLIC: maintainer decision",
 ("C27", "classmethod"): "feature gap (classmethods are never collected), not a small repair",
 ("C27", "cached-method"): "feature gap (functools.cache-wrapped methods)",
 ("C27", "enum-method"): "feature gap (EnumType.__dir__ hides methods from inspect.getmembers)",
}
for e in sorted([e for e in k if e["status"] == "known"], key=lambda e: (e["property"], e["key"])):
    out.append(f"| {e['property']} | `{e['key']}` | {e['what'][:300]} | {WHY.get((e['property'], e['key']), '')} |")
out.append("\n### 9.6 Seeded changes (written by fresh sub-agents from the property text only) and which checks catch them\n")
out.append("Each change lives in `seeded/<id>/` (`patch.diff`, `demo.py`, `meta.json`). `confirmed` = the demonstration passes on the unchanged "
           "tree and fails with the change, and the related repository tests pass with the change (whole-suite runs are recorded in `meta.json` "
           "where done). The last column is the verdict of the listed checks' quick tier run against the changed tree "
           "(`tools/confirm_seeded.py`).\n")
out.append("| id | breaks | confirmed | needs to manifest (first lines of the author's note) | caught by (quick tier) |\n|---|---|---|---|---|")
for d in sorted(glob.glob("/verif/seeded/*/meta.json")):
    m = json.load(open(d))
    note = " ".join(m.get("needs_to_manifest", "").split())
    note = re.sub(r"[|]", "/", note)[:260]
    su = m.get("suite", {})
    suite = "whole suite: pass" if su.get("exit") == 0 else ("whole suite: not run" if not su else "whole suite: " + str(su.get("not_passing_after_rerun")))
    if su.get("flaky_passed_on_rerun"):
        suite += " (load-sensitive subprocess tests passed when re-run alone)"
    caught = ", ".join(f"{c}: {'**caught**' if v['caught'] else 'missed'}" for c, v in m.get("checks", {}).items())
    out.append(f"| {m['id']} | {m['property']} | {'yes' if m.get('confirmed') else 'NO'}; {suite} | {note} | {caught} |")
text = "\n".join(out) + "\n"
p = "/verif/DESIGN.md"
s = open(p).read()
b, e = "<!-- TABLES:BEGIN -->", "<!-- TABLES:END -->"
if b not in s:
    s += f"\n{b}\n{e}\n"
s = s[:s.index(b) + len(b)] + "\n" + text + s[s.index(e):]
open(p, "w").write(s)
print("tables written:", len(out), "lines")
