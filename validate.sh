#!/usr/bin/env bash
# validates MANIFEST.json and every evidence file against the schemas
cd "$(dirname "$0")"
python3-vt - <<'PY'
import json, glob, jsonschema, sys
ok = True
man = json.load(open("MANIFEST.json"))
jsonschema.validate(man, json.load(open("/root/.vp/MANIFEST.schema.json")))
sch = json.load(open("/root/.vp/EVIDENCE.schema.json"))
for c in man["checks"]:
    try:
        jsonschema.validate(json.load(open(c["evidence_file"])), sch)
    except Exception as e:
        ok = False; print("INVALID", c["evidence_file"], str(e)[:200])
print("manifest ok;", len(man["checks"]), "checks; evidence", "ok" if ok else "NOT ok")
sys.exit(0 if ok else 1)
PY
