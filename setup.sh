#!/usr/bin/env bash
# Offline set-up: make hypothesis importable from /venv and put atheris into ./.deps.
set -u
cd "$(dirname "$0")"
PY="${VERIF_PYTHON:-/venv/bin/python}"
WH=/opt/veriftools/wheels
"$PY" -c 'import hypothesis' 2>/dev/null || "$PY" -m pip install --no-index --find-links "$WH" hypothesis
mkdir -p .deps evidence replays
if ! PYTHONPATH="$PWD/.deps" "$PY" -c 'import atheris' 2>/dev/null; then
  "$PY" -m pip install --no-index --find-links "$WH" --target "$PWD/.deps" atheris >/dev/null 2>&1 \
    || echo "note: atheris not installable; coverage-guided tiers fall back to Hypothesis only"
fi
"$PY" -c 'import hypothesis, sys; print("setup ok: hypothesis", hypothesis.__version__)'
